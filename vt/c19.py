"""C19 -- concurrent calls behave like sequential calls (E6: preemption-bounded schedule exploration)."""

import time

from . import annot, core, e6, gen

PROP = "C19"

import ovld.utils as outils  # noqa: E402


class K0:
    pass


class K1(K0):
    pass


class K2(K0):
    pass


CLASSES = {"K0": K0, "K1": K1, "K2": K2, "int": int, "str": str, "O": object}
X, XY = gen.SHAPES["x"], gen.SHAPES["xy"]


def M(i, t, prio=0, body=None, shape=X):
    types = {"x": t} if shape == X else {"x": t[0], "y": t[1]}
    m = {"id": i, "shape": shape, "types": types, "prio": prio}
    if body:
        m["body"] = body
    return m


CHAIN = [M(0, "O"), M(1, "K0", 0, "cn"), M(2, "K1", 1, "cn"), M(3, "int")]
TWO = [M(0, ("O", "O"), shape=XY), M(1, ("K0", "O"), shape=XY), M(2, ("K0", "K1"), shape=XY), M(3, ("K1", "K0"), shape=XY)]
DEP = [M(0, "O", -1), M(1, ["lit", 0]), M(2, ["lit", 1]), M(3, ["dep", "int", "p6"], 1, "cn"), M(4, "str")]

V = {"k0": K0(), "k1": K1(), "k2": K2(), "5": 5, "s": "s", "0": 0, "1": 1, "2": 2}
# the K0 method delegates with call_next on a K1 value (which it accepts itself: it is the middle candidate for K1)
CNV = [M(0, "O"), dict(M(1, "K0", 0, "cnv"), env={"__v": V["k1"]}), M(2, "K1", 1, "cn"), M(3, "int")]
# an optional second positional parameter: the generated entry point has defaults of its own (installed next to its code)
OPT = [M(0, "O"), {"id": 1, "shape": gen.SHAPES["xy?"], "types": {"x": "K0", "y": "int"}, "prio": 0}, M(2, "K1", 1, "cn"), M(3, "int")]
# the int method delegates with call_next on a K1 value, which it does NOT accept (the fresh-call path of call_next)
CNF = [M(0, "O"), M(1, "K0", 0, "cn"), M(2, "K1", 1, "cn"), dict(M(3, "int", 0, "cnv"), env={"__v": V["k1"]})]


def scenarios(tier):
    """(name, mspecs, warm-up calls, [thread0 call, thread1 call], probes, entry)"""
    S = [
        ("S1:first-calls,same-args", CHAIN, [], [("k1",), ("k1",)], ["k0", "k1", "5", "s"], "dispatch"),
        ("S1:first-calls,different-args", CHAIN, [], [("k1",), ("5",)], ["k0", "k1", "5", "s"], "dispatch"),
        ("S2:cache-miss,same-tuple", CHAIN, [("5",)], [("k1",), ("k1",)], ["k0", "k1", "5"], "dispatch"),
        ("S2:cache-miss,different-tuples", CHAIN, [("5",)], [("k1",), ("k2",)], ["k0", "k1", "k2", "5"], "dispatch"),
        ("S3:call_next-chains", CHAIN, [("k1",)], [("k1",), ("k0",)], ["k0", "k1", "5"], "dispatch"),
        ("S4:dependent-dispatcher", DEP, [("s",)], [("2",), ("1",)], ["0", "1", "2", "s"], "dispatch"),
        ("S6:call_next-on-another-value,racing-its-first-resolution", CNV, [("5",)], [("k0",), ("k1",)], ["k0", "k1", "5"], "dispatch"),
        ("S8:first-calls,optional-parameter-omitted", OPT, [], [("k1",), ("k0",)], ["k0", "k1", "5"], "dispatch"),
        ("S7:call_next-fresh-call-path,racing-the-resolution-of-its-target", CNF, [("s",)], [("5",), ("k1",)], ["k0", "k1", "5"], "dispatch"),
    ]
    if True:
        S += [
            ("S1:first-calls,Ovld.__call__", CHAIN, [], [("k1",), ("k0",)], ["k0", "k1", "5", "s"], "ovld"),
            ("S1:first-calls,bound-method", CHAIN, [], [("k1",), ("5",)], ["k0", "k1", "5"], "method"),
            ("S2:cache-miss,position-sharing", TWO, [("k0", "k0")], [("k1", "k0"), ("k1", "k1")], [("k0", "k0"), ("k1", "k0"), ("k1", "k1"), ("k0", "k1")], "dispatch"),
            ("S4:dependent-first-calls", DEP, [], [("2",), ("0",)], ["0", "1", "2", "s"], "dispatch"),
        ]
    if tier != "quick":
        # three threads (exhaustive at preemption bound 1): racing cache misses and call_next chains
        S += [
            ("S5:three-threads,cache-miss", CHAIN, [("5",)], [("k1",), ("k0",), ("k2",)], ["k0", "k1", "k2", "5"], "dispatch"),
            ("S5:three-threads,first-calls", CHAIN, [], [("k1",), ("5",), ("k1",)], ["k0", "k1", "5", "s"], "dispatch"),
        ]
    return S


def norm_result(r):
    if r is None:
        return ("no-result", None)
    if r[0] == "ok":
        return ("ret", repr(r[1]))
    e = r[1]
    k = core.classify_exception(e, [])
    return (k, core.short_exc(e)[:80] if k.startswith("exc") else None)


def build(mspecs, warm, entry):
    if entry == "method":
        mspecs = [dict(m, shape="self:S:0 " + m["shape"]) for m in mspecs]
    p = gen.Program(CLASSES, mspecs, annotate=annot.annotate)
    if entry == "dispatch":
        fn = p.ov.dispatch
    elif entry == "ovld":
        fn = p.ov
    else:
        holder = type("Holder", (), {"f": p.ov})()
        fn = lambda *a: holder.f(*a)  # noqa
    for w in warm:
        fn(*[V[a] if isinstance(a, str) else a for a in w])
    return p, fn


def args_of(call):
    return tuple(V[a] for a in call)


def reference(sc):
    name, mspecs, warm, calls, probes, entry = sc
    alone = []
    for c in calls:
        p, fn = build(mspecs, warm, entry)
        try:
            alone.append(norm_result(("ok", fn(*args_of(c)))))
        except Exception as e:  # noqa
            alone.append(norm_result(("exc", e)))
    # all sequential orders must agree with "alone" (brute-force linearizability over the few operations)
    import itertools as _it

    for order in _it.permutations(range(len(calls))):
        p, fn = build(mspecs, warm, entry)
        for i in order:
            try:
                r = norm_result(("ok", fn(*args_of(calls[i]))))
            except Exception as e:  # noqa
                r = norm_result(("exc", e))
            if r != alone[i]:
                raise core.HarnessError(f"{name}: sequential reference is order dependent")
    pr = {}
    for c in probes:
        c = (c,) if isinstance(c, str) else c
        p, fn = build(mspecs, warm, entry)
        try:
            pr[c] = norm_result(("ok", fn(*args_of(c))))
        except Exception as e:  # noqa
            pr[c] = norm_result(("exc", e))
    if len(set(alone)) + len(set(pr.values())) < 3:
        raise core.HarnessError(f"{name}: trivial scenario")
    return alone, pr


def explore_scenario(sc, bound, shard, nshards, acc, visible=e6.default_visible, max_schedules=None, gate_extra=0):
    name, mspecs, warm, calls, probes, entry = sc
    alone, pref = reference(sc)
    outcomes = {}

    def make():
        p, fn = build(mspecs, warm, entry)
        bodies = [(lambda c=c: fn(*args_of(c))) for c in calls]
        return bodies, (p, fn)

    def check(ex, ctx, choices):
        p, fn = ctx
        acc.count("evaluations")
        if shard != 0 and getattr(ex, "shared_run", ex.preemptions == 0):
            return  # executions above the sharding level are run by every shard and judged by shard 0 only
        acc.count("schedules")
        if ex.preemptions:
            acc.count("nontrivial")
        res = [norm_result(r) for r in ex.results]
        key = tuple(res)
        outcomes.setdefault(key, choices)
        disc, detail = None, {}
        if ex.deadlock:
            disc, detail = "deadlock", {}
        elif ex.capped:
            disc, detail = "horizon-exceeded", {}
        else:
            for i, r in enumerate(res):
                if r != alone[i]:
                    disc = f"thread-outcome:{alone[i][0]}->{r[0]}"
                    detail = {"thread": i, "alone": list(alone[i]), "concurrent": list(r)}
                    break
            if disc is None:
                for c, exp in pref.items():
                    try:
                        r = norm_result(("ok", fn(*args_of(c))))
                    except Exception as e:  # noqa
                        r = norm_result(("exc", e))
                    if r != exp:
                        disc = f"state-after:{exp[0]}->{r[0]}"
                        detail = {"probe": list(c), "expected": list(exp), "got": list(r)}
                        break
        if disc:
            # the preempted location identifies the window; the case id must not depend on line numbers
            locs = [list(map(str, ex.points[i][3][:2])) for i, c in enumerate(choices) if c and i < len(ex.points) and ex.points[i][2]]
            acc.violation({"scenario": name, "preempted_at": locs, "bound": bound, "gate_extra": gate_extra}, disc,
                          dict(detail, schedule=[i for i, c in enumerate(choices) if c], points=len(ex.points)))

    st = {}
    e6.explore(make, check, bound, shard, nshards, visible, st, max_schedules, gate=GATE if gate_extra else None, gate_extra=gate_extra)
    acc.count("distinct_result_vectors", len(outcomes))
    acc.h("points_per_execution", name, st["max_points"])
    acc.h("distinct_outcomes", name, len(outcomes))
    if st.get("truncated"):
        acc.count("truncated_scenarios")
    if shard == 0:
        acc.sample({"scenario": name, "threads": [list(c) for c in calls], "warm": [list(w) for w in warm], "bound": bound,
                    "points": st["max_points"], "alone": [list(a) for a in alone]})
    gen.purge_globals()


GATE = e6.build_gate()


def config(tier):
    if tier == "quick":
        return {"bound": 1}
    return {"bound": 2}


def install_lock_seam():
    if hasattr(outils, "_verif_lock_factory"):
        outils._verif_lock_factory = e6.CoopLock


def shard(shard, nshards, tier, seed):
    install_lock_seam()
    acc = core.Acc(PROP)
    cfg = config(tier)
    for sc in scenarios(tier):
        b = cfg["bound"]
        if tier != "quick" and (not sc[2] or len(sc[3]) > 2 or sc[0].startswith(("S6", "S7"))):
            b = 1  # no warm-up = the lazy build races (~1500 points per execution): bound 2 only on the warmed 2-thread scenarios
        # cold scenarios (the lazy build races): one more preemption is allowed before the build lock is taken
        # (bootstrap entry point / ensure_compiled / prologue of compile), i.e. a thread that has decided to build
        # may be held there while the other one is preempted once anywhere
        cold2 = not sc[2] and len(sc[3]) == 2 and (sc[0] == "S1:first-calls,same-args" or (
            tier != "quick" and sc[0] in ("S8:first-calls,optional-parameter-omitted", "S4:dependent-first-calls", "S1:first-calls,different-args")))
        explore_scenario(sc, b, shard, nshards, acc, gate_extra=1 if cold2 and b == 1 else 0)
    if tier != "quick" and shard < 4:
        # validates the reduction of the scheduling points: bound 1 with every library line visible
        sc = scenarios(tier)[shard if shard < 2 else shard + 1]
        sub = core.Acc(PROP)
        explore_scenario((sc[0] + "/all-lines",) + sc[1:], 1, 0, 1, sub, visible=e6.all_visible)
        acc.n.update(sub.n)
        acc.viol_ids += sub.viol_ids
        acc.viol += sub.viol
    return acc


def replay(case):
    install_lock_seam()
    acc = core.Acc(PROP)
    for tier in ("quick", "thorough"):
        for sc in scenarios(tier):
            if sc[0] == case["scenario"]:
                explore_scenario(sc, case.get("bound", 1), 0, 1, acc, gate_extra=case.get("gate_extra", 0))
                return [(r["disc"], r["detail"]) for r in acc.viol if r["case"]["preempted_at"] == case["preempted_at"]]
    return []


def main(tier):
    t0 = time.time()
    merged = core.run_sharded(__name__, "shard", tier, nshards=32)
    cfg = config(tier)
    return core.finish(
        PROP, tier, "model_checking", merged, t0,
        rule=f"two (thorough: also three, at bound 1) real threads on one shared function, serialised by a baton at every executed source line of the library's "
             f"dispatch / build / resolution code; all schedules with at most {cfg['bound']} preemption(s) (iterative context bounding; "
             "S6 / S7 and first calls racing the lazy build: bound 1 anywhere; the latter plus one more preemption located before the build lock is taken - bootstrap entry point, ensure_compiled, prologue of compile) over scenarios S1 racing first calls (same / different arguments, through "
             "the dispatch function, Ovld.__call__, a bound method), S2 racing cache misses (same / different / position-sharing "
             "tuples), S3 racing call_next chains, S4 racing dependent dispatchers, S8 first calls that omit an optional parameter, S6 / S7 call_next on a value of another type (accepted / not accepted by the caller) racing the first direct resolution of that type; oracle: each thread's result equals its result "
             "alone (both sequential orders agree), no deadlock, and afterwards every probe equals the fault-free function; "
             "non-trivial = schedules with at least one preemption",
        assumptions=["switches happen between source lines of the visible library functions (thorough: bound 1 re-run with every "
                     "library line visible validates the reduction)", "races inside the standard library are outside the model",
                     "a lock in the library must come from the guarded seam _verif_make_lock so that the explorer can substitute a cooperative lock"],
        states_key="schedules", transitions_key="evaluations",
    )
