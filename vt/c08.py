"""C08 -- recurse always re-enters the overloaded function that was actually called (E7 graph variant vs R5/R6)."""

import itertools
import linecache
import time

from . import core, gen

PROP = "C08"

from ovld import Ovld, call_next, recurse  # noqa: E402

INPUTS = [("1", 1), ("'a'", "a"), ("[1]", [1]), ("[1,'a']", [1, "a"]), ("[[1],'a']", [[1], "a"]), ("[]", [])]

_SRC = '''
def walker_rec(MID, LOG):
    def m(x: list):
        LOG.append((MID, None))
        return ("w", MID, [recurse(e) for e in x])
    return m


def walker_recstar(MID, LOG):
    def m(x: list):
        LOG.append((MID, None))
        return ("w", MID, [recurse(*[e]) for e in x])
    return m


def walker_lazy(MID, LOG):
    def m(x: list):
        LOG.append((MID, None))
        return ("w", MID, (recurse(e) for e in x))
    return m


def walker_recname(MID, LOG):
    def m(x: list):
        LOG.append((MID, None))
        return ("w", MID, list(map(recurse, x)))
    return m


def walker_selfname(MID, LOG):
    me = None

    def m(x: list):
        LOG.append((MID, None))
        return ("w", MID, list(map(me, x)))

    def setme(v):
        nonlocal me
        me = v

    m.setme = setme
    return m


def walker_self(MID, LOG):
    me = None

    def m(x: list):
        LOG.append((MID, None))
        return ("w", MID, [me(e) for e in x])

    def setme(v):
        nonlocal me
        me = v

    m.setme = setme
    return m


def bad_method(MID, LOG):
    def m(x: bytes):
        f = call_next
        return f(x)
    return m


def leaf_int(MID, LOG):
    def m(x: int):
        LOG.append((MID, None))
        return ("leaf", MID)
    return m


def leaf_str(MID, LOG):
    def m(x: str):
        LOG.append((MID, None))
        return ("leaf", MID)
    return m
'''
_FN = "<vtgen:c08>"
linecache.cache[_FN] = (len(_SRC), None, _SRC.splitlines(True), _FN)
_G = {"recurse": recurse, "call_next": call_next, "__name__": "vtgen"}
exec(compile(_SRC, _FN, "exec"), _G, _G)
gen._FACTORY_GLOBALS.append(_G)


def dags(n):
    """Derivation DAGs on n nodes: node i > 0 has one copied parent and 0-1 extra mixins."""
    if n == 1:
        yield ((),)
        return
    choices = []
    for i in range(1, n):
        opts = []
        for p in range(i):
            opts.append((p,))
            for q in range(i):
                if q != p:
                    opts.append((p, q))
        choices.append(opts)
    for combo in itertools.product(*choices):
        yield ((),) + combo


def placements(n, tier):
    """(walker node, walker kind, leaves) with leaves[node] = subset of {'int','str'}"""
    leaf_opts = [(), ("int",), ("str",), ("int", "str")]
    if n >= 4:
        leaf_opts4 = [(), ("int",)]
    for w in range(n):
        for kind in ("rec", "self", "recname", "selfname", "recstar", "lazy"):
            if n < 4:
                for leaves in itertools.product(leaf_opts, repeat=n):
                    if any(leaves):
                        yield w, kind, leaves
            else:
                for ints in itertools.product(leaf_opts4, repeat=n):
                    for strnode in (None, 0, n - 1):
                        leaves = tuple(tuple(l) + (("str",) if strnode == i else ()) for i, l in enumerate(ints))
                        if any(leaves):
                            yield w, kind, leaves


def mids(n, w, kind, leaves):
    """method ids: walker = 100 + node; leaf = 10 * node + (1 int | 2 str)"""
    out = {}
    for i in range(n):
        own = {}
        if i == w:
            own["list"] = 100 + i
        for t in leaves[i]:
            own[t] = 10 * i + (1 if t == "int" else 2)
        out[i] = own
    return out


class RefNoMethod(Exception):
    pass


def effective(dag, own, node, memo):
    if node in memo:
        return memo[node]
    eff = {}
    for p in dag[node]:
        eff.update(effective(dag, own, p, memo))
    eff.update(own[node])
    memo[node] = eff
    return eff


def ref_call(dag, own, kind, w, node, v, memo):
    """R5: recurse re-enters the node that is dispatching; a self-named walker re-enters its defining node."""
    eff = effective(dag, own, node, memo)
    t = "list" if isinstance(v, list) else "int" if isinstance(v, int) else "str"
    if t not in eff:
        raise RefNoMethod()
    mid = eff[t]
    if t != "list":
        return ("leaf", mid)
    target = node if kind in ("rec", "recname", "recstar", "lazy") else w
    return ("w", mid, [ref_call(dag, own, kind, w, target, e, memo) for e in v])


def make_fn(kind, t, mid, log, ov):
    if t == "list":
        fn = _G["walker_" + kind](mid, log)
    else:
        fn = _G["leaf_" + t](mid, log)
    return fn


def build(dag, w, kind, leaves, fault=None, late=None, link=False):
    n = len(dag)
    log = []
    nodes = []
    own = mids(n, w, kind, leaves)
    build.bad = None
    for i in range(n):
        ov = Ovld(mixins=[nodes[p] for p in dag[i]], linkback=link) if dag[i] else Ovld()
        nodes.append(ov)
        if fault == i:
            # an invalid method registered before the node's own methods: its build fails after the
            # inherited methods were adapted and before the own ones are
            build.bad = _G["bad_method"](999, log)
            ov.register(build.bad)
        for t, mid in own[i].items():
            if late is not None and (i, t) == tuple(late):
                continue  # registered after the first uses, see check()
            fn = make_fn(kind, t, mid, log, ov)
            ov.register(fn)
            if t == "list" and kind in ("self", "selfname"):
                fn.setme(ov.dispatch)
    return nodes, log, own


def _materialise(x):
    import types

    if isinstance(x, types.GeneratorType):
        return [_materialise(e) for e in x]  # consuming it runs the pending recurse calls NOW
    if isinstance(x, tuple):
        return tuple(_materialise(e) for e in x)
    if isinstance(x, list):
        return [_materialise(e) for e in x]
    return x


def finish(payload, log):
    try:
        return ("ret", _materialise(payload))
    except Exception as e:  # noqa
        return (core.classify_exception(e, log), None)


def run(nodes, log, node, v, hold=False):
    del log[:]
    ov = nodes[node]
    out = gen.run_call(getattr(ov, "dispatch", ov), (v,), {}, log)
    if out[0] != "ret":
        return (out[0], None)
    if hold:
        return ("held", out[2])  # a lazy walker's result: generators whose recurse calls are still pending
    return finish(out[2], log)


def check(dag, w, kind, leaves, order, acc, fault=None, late=None, link=False):
    nodes, log, own = build(dag, w, kind, leaves, fault, late, link)
    found = []
    # first use of the nodes in the given order
    for node in order:
        r = run(nodes, log, node, INPUTS[order.index(node) % len(INPUTS)][1])
        if node == fault:
            # the first use failed on the invalid method; it is removed and the function is used again
            if acc is not None:
                acc.h("failed_first_use", r[0])
            nodes[node].unregister(build.bad)
            run(nodes, log, node, INPUTS[0][1])
    held = {}
    if late is not None and kind == "lazy":
        # results obtained BEFORE the late registration and consumed after it: the pending recurse calls run against
        # the function as it is then
        for node in range(len(dag)):
            for vn, v in INPUTS:
                held[(node, vn)] = run(nodes, log, node, v, hold=True)
    if late is not None:
        # a plain (never rewritten) leaf method arrives after every function was used: the walkers, adapted
        # long ago, must see it (through linked parents too)
        i, t = late
        nodes[i].register(make_fn(kind, t, own[i][t], log, nodes[i]))
    memo = {}
    for node in range(len(dag)):
        for vn, v in INPUTS:
            try:
                exp = ("ret", ref_call(dag, own, kind, w, node, v, memo))
            except RefNoMethod:
                exp = ("nomethod", None)
            got = run(nodes, log, node, v)
            h = held.get((node, vn))
            if h is not None and h[0] == "held" and isinstance(v, list):
                # the result that was held across the registration: the outer call was resolved BEFORE it (old method
                # set), its pending element calls run now (new method set)
                got_held = finish(h[1], log)
                own_before = {k: {t: m for t, m in d.items() if (k, t) != tuple(late)} for k, d in own.items()}
                eff_before = effective(dag, own_before, node, {})
                try:
                    exp_held = ("ret", ("w", eff_before["list"], [ref_call(dag, own, kind, w, node, e, memo) for e in v]))
                except RefNoMethod:
                    exp_held = ("nomethod", None)
                if got_held[0] == "sigerror" and exp_held[0] == "nomethod":
                    got_held = exp_held
                if got_held != exp_held:
                    disc = "pending-recursion-after-a-change"
                    if acc is not None:
                        acc.violation({"dag": [list(d) for d in dag], "walker": [w, kind], "leaves": [list(l) for l in leaves],
                                       "order": list(order), "node": node, "input": vn, "fault": fault,
                                       "late": list(late) if late else None, "link": link}, disc,
                                      {"node": node, "input": vn, "expected": repr(exp_held)[:160], "held": repr(got_held)[:160]})
                    else:
                        found.append((disc, {"node": node, "input": vn}))
            if got[0] == "sigerror" and exp[0] == "nomethod":
                got = exp
            if acc is not None:
                acc.count("evaluations")
                if isinstance(v, list) and v and exp[0] == "ret":
                    acc.count("nontrivial")
            if got != exp:
                disc = f"{exp[0]}->{got[0]}" if got[0] != exp[0] else "wrong-function-re-entered"
                detail = {"node": node, "input": vn, "expected": repr(exp[1]), "got": repr(got[1])}
                if acc is not None:
                    acc.violation({"dag": [list(d) for d in dag], "walker": [w, kind], "leaves": [list(l) for l in leaves],
                                   "order": list(order), "node": node, "input": vn, "fault": fault,
                                   "late": list(late) if late else None, "link": link}, disc, detail)
                else:
                    found.append((disc, detail))
    return found


def cases(tier):
    sizes = (1, 2, 3, 4)
    for n in sizes:
        for dag in dags(n):
            for w, kind, leaves in placements(n, tier):
                orders = list(itertools.permutations(range(n)))
                if n == 4:
                    orders = [o for o in orders if o[0] in (0, 3)] if tier == "thorough" else orders[:1]
                for order in orders:
                    yield dag, w, kind, leaves, order, None, None, False
                    if n <= 3 and kind in ("rec", "self"):
                        # the node used first fails to build once (invalid method), is repaired and used again
                        yield dag, w, kind, leaves, order, order[0], None, False
                if n <= 3:
                    # one leaf method registered late, after every node was used: on a node without children
                    # (plain mixin edges lock used parents), or on any node when the edges are linked
                    has_child = {p for d in dag for p in d}
                    for order in (orders if tier != "quick" else orders[:1] + orders[-1:] if n > 1 else orders):
                        for i in range(n):
                            for t in leaves[i]:
                                if i not in has_child:
                                    yield dag, w, kind, leaves, order, None, (i, t), False
                                if n > 1:
                                    yield dag, w, kind, leaves, order, None, (i, t), True


def shard(shard, nshards, tier, seed):
    acc = core.Acc(PROP)
    for idx, (dag, w, kind, leaves, order, fault, late, link) in enumerate(cases(tier)):
        if idx % nshards != shard:
            continue
        acc.count("programs")
        acc.h("nodes", len(dag))
        acc.h("variant", "late-leaf,linked" if late and link else "late-leaf" if late else "failed-first-use" if fault is not None else "plain")
        check(dag, w, kind, leaves, order, acc, fault, tuple(late) if late else None, link)
        if idx % (nshards * 97) == shard:
            acc.sample({"dag": [list(d) for d in dag], "walker": [w, kind], "leaves": [list(l) for l in leaves], "order": list(order)})
        if acc.n["programs"] % 50 == 0:
            gen.purge_globals()
    gen.purge_globals()
    return acc


def replay(case):
    found = check(tuple(tuple(d) for d in case["dag"]), case["walker"][0], case["walker"][1],
                  tuple(tuple(l) for l in case["leaves"]), tuple(case["order"]), None, case.get("fault"),
                  tuple(case["late"]) if case.get("late") else None, bool(case.get("link")))
    return [f for f in found if f[1]["node"] == case["node"] and f[1]["input"] == case["input"]]


def main(tier):
    t0 = time.time()
    merged = core.run_sharded(__name__, "shard", tier)
    return core.finish(
        PROP, tier, "model_checking", merged, t0,
        rule="all derivation DAGs with <= 4 functions (4 nodes: one first-use order in quick, 12 in thorough; fewer leaf placements) in which each derived function has one copied parent and 0-1 extra "
             "mixins x every placement of one list walker (calling recurse, calling it with unpacked arguments - the run-time helper -, calling it lazily inside a generator that is consumed after a later registration, passing recurse as a value, calling or passing its own function by name) and of int / str leaf methods on "
             "the nodes x all orders of first use of the nodes (and, for <= 3 nodes, the variant in which the first node used fails to build once on an invalid method, is repaired and used again; and the variants in which one plain leaf method is registered only after every node was used - on a node without children, or on any node when the derivation edges are linked) x nested inputs, probing every node; oracle: a reference interpreter "
             "(R5/R6) that re-enters the dispatching node for recurse and the defining node for a self-named walker; result trees "
             "record which node's method handled which element; non-trivial = non-empty list inputs with a defined result",
        assumptions=["reference interpreter R5 / R6 of vt/c08.py"],
    )
