"""RefOvld -- the reference model of the *specification* (DESIGN 2.3, clauses R1-R7).

It never looks at ovld internals.  Type annotations are described by JSON-able *type specs*
that the harness turns into real annotations on one side (gen/annot) and that this module
interprets on the other:

  "O" | "K<i>" | any name in the class environment      -> a class (isinstance / issubclass)
  ["lit", v1, ...]                                      -> Literal
  ["dep", bound, pred]                                  -> Dependent[bound, pred] (pred: name in PREDS)
  ["union", a, b, ...] / ["inter", a, b, ...]
  ["exactly", a] / ["strict", a] / ["hasmethod", name]
  ["type", a]                                           -> type[a]
  ["gen", origin, a, ...]                               -> origin[a, ...]  (list[int], dict[...])
  ["tuple", a, ...]                                     -> tuple[a, ...]
"""

from .gen import parse_shape


class RefMethod:
    __slots__ = ("id", "params", "prio", "reg", "body", "types", "pos", "kw", "req_pos", "max_pos",
                 "req_kw", "sigkey", "is_method", "env", "kworder")

    def __init__(self, mspec, reg):
        self.id = mspec["id"]
        self.prio = mspec.get("prio", 0)
        self.reg = reg
        self.body = mspec.get("body") or "plain"
        self.env = mspec.get("env") or {}
        self.types = mspec.get("types", {})
        params = parse_shape(mspec["shape"])
        self.is_method = bool(params and params[0][1] == "S")
        self.params = [p for p in params if p[1] != "S"]
        self.pos = [p for p in self.params if p[1] in "PN"]
        self.kw = {p[0]: p for p in self.params if p[1] == "K"}
        self.req_pos = sum(1 for p in self.pos if not p[2])
        self.max_pos = len(self.pos)
        self.req_kw = {nm for nm, p in self.kw.items() if not p[2]}
        self.kworder = tuple(self.kw)  # declaration order of the keyword-only parameters
        # "identical signature": same declared types in the same slots, same arity range,
        # same required keywords, same priority (the statement's notion, which is also the
        # library's modulo return annotations, never used here)
        self.sigkey = (
            tuple(_freeze(self.types.get(p[0], "O")) for p in self.pos),
            tuple(sorted((nm, _freeze(self.types.get(nm, "O"))) for nm in self.kw)),
            self.req_pos,
            self.max_pos,
            tuple(sorted(self.req_kw)),
            self.prio,
        )

    def type_at(self, i):
        return self.types.get(self.pos[i][0], "O")

    def type_kw(self, nm):
        return self.types.get(nm, "O")

    def accepts_shape(self, nargs, kwnames):
        return (
            self.req_pos <= nargs <= self.max_pos
            and all(k in self.kw for k in kwnames)
            and self.req_kw <= set(kwnames)
        )


def _freeze(t):
    if t == "type":  # bare type is type[object]: the same signature
        return ("type", "O")
    return (t[0],) + tuple(_freeze(x) for x in t[1:]) if isinstance(t, list) else t


class RefOvld:
    def __init__(self, mspecs, sem):
        """mspecs in registration order; sem: type semantics (instance / leq)."""
        self.methods = [RefMethod(ms, i) for i, ms in enumerate(mspecs)]
        self.sem = sem
        # an identical signature registered again replaces (beats) the older one
        self.by_id = {m.id: m for m in self.methods}

    # R1
    def applicable(self, m, args, kwargs):
        if not m.accepts_shape(len(args), kwargs.keys()):
            return False
        for i, v in enumerate(args):
            if not self.sem.instance(v, m.type_at(i)):
                return False
        for k, v in kwargs.items():
            if not self.sem.instance(v, m.type_kw(k)):
                return False
        return True

    # R2
    def beats(self, a, b, nargs, kwnames):
        if a.prio != b.prio:
            return a.prio > b.prio
        if a.sigkey == b.sigkey:
            return a.reg > b.reg
        for i in range(nargs):
            if not self.sem.leq(a.type_at(i), b.type_at(i)):
                return False
        for k in kwnames:
            if not self.sem.leq(a.type_kw(k), b.type_kw(k)):
                return False
        return True

    def kw_order_twins(self, args, kwargs):
        """Two applicable methods that differ ONLY in the declaration order of their keyword-only parameters:
        whether that is an "identical signature" (the later one replaces the earlier) or two signatures that
        are the same in every compared type (a tie) is not something the statements settle."""
        app = [m for m in self.methods if self.applicable(m, args, kwargs)]
        return any(a.sigkey == b.sigkey and a.kworder != b.kworder for i, a in enumerate(app) for b in app[i + 1:])

    # R3
    def decide(self, args, kwargs, excluded=()):
        """-> ('ret', m) | ('ambiguous', [tied]) | ('nomethod', None) | ('rejected', None)"""
        live = [m for m in self.methods if m.id not in excluded]
        app = [m for m in live if self.applicable(m, args, kwargs)]
        if not app:
            if any(m.accepts_shape(len(args), kwargs.keys()) for m in self.methods):
                return ("nomethod", None)
            return ("rejected", None)
        winners = [
            m for m in app if all(self.beats(m, o, len(args), kwargs.keys()) for o in app if o is not m)
        ]
        if len(winners) == 1:
            return ("ret", winners[0])
        # the tied set: applicable methods not beaten strictly by a method that is itself unbeaten
        return ("ambiguous", app)

    def layers(self, args, kwargs):
        """Successive ranks of the applicable methods: those no remaining method beats strictly."""
        app = [m for m in self.methods if self.applicable(m, args, kwargs)]
        n, kw = len(args), kwargs.keys()
        out = []
        while app:
            top = [m for m in app if not any(self.beats(o, m, n, kw) and not self.beats(m, o, n, kw) for o in app if o is not m)]
            if not top:  # pragma: no cover
                top = app[:1]
            out.append(top)
            app = [m for m in app if m not in top]
        return out

    # R3 + R4: the whole trace of a call whose methods may delegate with the same arguments
    def run(self, args, kwargs, max_steps=64):
        """-> (kind, trace) with kind in ret|nomethod|ambiguous|rejected"""
        trace = []
        visited = set()
        cur_args, cur_kwargs = args, kwargs
        for _ in range(max_steps):
            kind, m = self.decide(cur_args, cur_kwargs, visited)
            if kind != "ret":
                if kind == "rejected" and trace:
                    kind = "nomethod"
                return (kind, tuple(trace))
            trace.append(m.id)
            if m.body in ("cn", "next", "cnk", "cnstar"):
                visited.add(m.id)
                continue
            if m.body in ("cnv", "cnv2"):
                v = m.env["__v"]
                nargs = (v,) if m.body == "cnv" else tuple(v)
                if self.applicable(m, nargs, {}):
                    # "had the current method and everything ranked above it not been registered":
                    # everything in the ranks down to m's own goes; if m shares its rank for the new
                    # arguments the statement does not say what happens to its peers: abstain
                    lays = self.layers(nargs, {})
                    k = next(i for i, lay in enumerate(lays) if m in lay)
                    if any(len(lay) > 1 for lay in lays[: k + 1]):
                        # (also when a rank above m is tied: a fresh call with these arguments
                        # could never have reached m, and which error wins is not specified)
                        return ("diverge", tuple(trace))
                    visited = {o.id for lay in lays[: k + 1] for o in lay}
                else:
                    visited = set()  # m not applicable to the new args: a fresh call
                cur_args, cur_kwargs = nargs, {}
                continue
            return ("ret", tuple(trace))
        return ("diverge", tuple(trace))


def kinds_match(ref_kind, obs_kind):
    """Reference kind vs observed kind (DESIGN 2.4)."""
    if ref_kind == "rejected":
        return obs_kind in ("nomethod", "sigerror")
    return ref_kind == obs_kind


# ----------------------------------------------------------------------------------------
# type semantics for the static class fragment


class StaticSem:
    """Classes of a Hierarchy (+ any extra named classes): isinstance / issubclass."""

    def __init__(self, classes):
        self.classes = classes

    def instance(self, v, t):
        return isinstance(v, self.classes[t])

    def leq(self, a, b):
        return issubclass(self.classes[a], self.classes[b])
