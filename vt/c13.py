"""C13 -- type-level matching agrees with the documented meaning of each type (E4 + E1)."""

import importlib
import itertools
import os
import sys
import tempfile
import time
import typing

from . import annot, core, gen, universe as U

PROP = "C13"

from ovld import Ovld, subclasscheck  # noqa: E402
from ovld.types import Deferred  # noqa: E402

STATIC_OPS = ("union", "inter", "exactly", "strict", "hasmethod")


def static_specs(depth, wide=False):
    base = ["K0", "K1", "K2", "K3", "K4", "A", "P", "P2", "int", "str", "O"]
    small = ["K0", "K1", "K3", "K4", "int", "P"]
    l1 = []
    for b in base:
        l1.append(["exactly", b])
        l1.append(["strict", b])
    for b, c in itertools.permutations(small, 2):
        l1.append(["union", b, c])
        l1.append(["inter", b, c])
    l1 += [["hasmethod", "pm"], ["hasmethod", "nope"], ["hasmethod", "__len__"], ["union", "K0", "K1", "int"], ["inter", "K1", "K2", "P"]]
    specs = base + l1
    if depth >= 2:
        sel = [s for s in l1 if wide or s[0] in ("exactly", "strict", "hasmethod") or (s[0] in ("union", "inter") and s[1] in ("K0", "K1", "K4") and s[2] in ("K3", "int", "K4", "K1"))]
        for s in sel:
            for b in ("K1", "K4", "int"):
                specs.append(["ounion", s, b])
                specs.append(["inter", s, b])
            specs.append(["ounion", s, ["exactly", "K3"]])
            specs.append(["inter", s, ["strict", "K0"]])
            specs.append(["inter", s, ["hasmethod", "pm"]])
    seen, out = set(), []
    for s in specs:
        k = annot.canon(s)
        if k not in seen:
            seen.add(k)
            out.append(s)
    return out


ABSTRACT = ["A", "P", "P2"]


def denotes(cname, spec):
    """C in [[T]]: the documented meaning, computed on the closed world of classes."""
    C = U.WORLD_CLASSES.get(cname) or U.CLASSES[cname]
    if isinstance(spec, str):
        return issubclass(C, U.CLASSES[spec] if spec in U.CLASSES else U.WORLD_CLASSES[spec])
    op, *rest = spec
    if op in ("union", "ounion"):
        return any(denotes(cname, r) for r in rest)
    if op == "inter":
        return all(denotes(cname, r) for r in rest)
    if op == "exactly":
        return isinstance(rest[0], str) and C is (U.CLASSES.get(rest[0]) or U.WORLD_CLASSES[rest[0]])
    if op == "strict":
        B = U.CLASSES.get(rest[0]) or U.WORLD_CLASSES[rest[0]]
        return issubclass(C, B) and C is not B
    if op == "hasmethod":
        return hasattr(C, rest[0])
    raise core.HarnessError(spec)


def instance_of(cname):
    C = U.WORLD_CLASSES[cname]
    if C is int:
        return 5
    if C is str:
        return "s"
    if C is bool:
        return True
    return C()


def shard(shard, nshards, tier, seed):
    acc = core.Acc(PROP)
    specs = static_specs(2, wide=(tier != "quick"))
    acc.extra["static_types"] = len(specs)
    classes = dict(U.CLASSES)
    classes.update(U.WORLD_CLASSES)
    for i, s in enumerate(specs):
        if i % nshards != shard:
            continue
        T = annot._ntype(s, classes)
        # (a) subclasscheck against the denotation, for every class of the closed world and for the abstract
        # classes themselves (the ABC, the protocol and its structural twin: distinct classes that are
        # subclasses of each other)
        for cname in U.WORLD + ABSTRACT:
            C = U.WORLD_CLASSES.get(cname) or U.CLASSES[cname]
            exp = denotes(cname, s)
            try:
                got = subclasscheck(C, T)
            except Exception as e:  # noqa
                got = "raises:" + type(e).__name__
            acc.count("evaluations")
            acc.h("denotation", str(exp))
            if exp:
                acc.count("nontrivial")
            if got is not exp and got != exp:
                acc.violation({"type": s, "class": cname}, "subclasscheck-vs-meaning", {"expected": exp, "got": got})
        # (b) dispatch level: f(x: T) and an object fallback at priority -1
        mspecs = [{"id": 0, "shape": gen.SHAPES["x"], "types": {"x": s}, "prio": 0},
                  {"id": 1, "shape": gen.SHAPES["x"], "types": {"x": "O"}, "prio": -1}]
        prog = gen.Program(classes, mspecs, annotate=lambda t, c: annot._ntype(t, c))
        for cname in U.WORLD:
            exp = denotes(cname, s)
            out = prog.call((instance_of(cname),), {})
            acc.count("evaluations")
            want = (0,) if exp else (1,)
            if out[0] != "ret" or out[1] != want:
                acc.violation({"type": s, "class": cname, "level": "dispatch"}, "dispatch-vs-meaning",
                              {"expected_method": want[0], "observed": [out[0], list(out[1])], "exc": out[2] if out[0] != "ret" else None})
        # reflexivity
        acc.count("evaluations")
        try:
            r = subclasscheck(T, T)
        except Exception as e:  # noqa
            r = "raises:" + type(e).__name__
        if r is not True:
            acc.violation({"type": s}, "not-reflexive", {"got": r})
        if i % 37 == 0:
            acc.sample({"type": s, "denotation": [c for c in U.WORLD if denotes(c, s)]})
    # (c) two typed methods on one function: each must be applicable exactly on its own denotation, whatever the other is
    pool = pair_pool(tier)
    acc.extra["pair_pool"] = len(pool)
    for idx, (s1, s2) in enumerate(itertools.permutations(pool, 2)):
        if idx % nshards == shard:
            check_pair(s1, s2, classes, acc)
            if idx % 200 == 0:
                gen.purge_globals()
    from . import c12

    for idx, (warm, seq) in enumerate(c12.relation_scenarios("quick")):
        if idx % nshards == shard:
            run_relation(warm, seq, acc)
    if shard == 0:
        laws(acc, tier)
        deferred(acc)
    return acc


def run_relation(warm, seq, acc):
    """The subtype test follows the subclass relation when that relation changes (virtual-subclass registration, a class
    starting to satisfy a runtime protocol): same worlds / events / warm-ups as C12's histories, judged with subclasscheck
    and with a function built AFTER the event."""
    from . import c12
    from ovld.types import Union as OvUnion

    classes, events = c12._fresh_world()
    found = []
    names = c12.REL_NAMES

    def sc(a, b):
        try:
            return subclasscheck(a, b)
        except Exception as e:  # noqa
            return "raises:" + type(e).__name__

    def compare_all(stage):
        for x in names:
            for y in names:
                X, Y = classes[x], classes[y]
                exp = issubclass(X, Y)
                for w, (a, b, e) in {"plain": (X, Y, exp), "list": (list[X], list[Y], exp), "type": (type[X], type[Y], exp),
                                     "union-target": (X, OvUnion[Y, int], exp)}.items():
                    got = sc(a, b)
                    if acc is not None:
                        acc.count("evaluations")
                        acc.count("law_checks")
                    if got != e:
                        found.append(("relation-change:subclasscheck-vs-issubclass", {"a": x, "b": y, "wrap": w, "stage": stage, "expected": e, "got": got}))
        # a function built now: f(x: Y) + object fallback, called with instances of the concrete classes
        for y in names:
            ov = Ovld()
            log = []

            def m0(x: classes[y]):
                log.append(0)

            def m1(x: object):
                log.append(1)

            ov.register(m0)
            ov.register(m1, priority=-1)
            for x in ("K", "K2", "Z"):
                del log[:]
                try:
                    ov(classes[x]())
                except Exception as e:  # noqa
                    log.append("raises:" + type(e).__name__)
                want = [0] if issubclass(classes[x], classes[y]) else [1]
                if acc is not None:
                    acc.count("evaluations")
                if log != want:
                    found.append(("relation-change:new-function-dispatch", {"a": x, "b": y, "wrap": "dispatch", "stage": stage, "expected": want, "got": list(log)}))

    if warm == "all":
        compare_all(0)
    elif warm is not None:
        x, y, w = warm
        sc(classes[x], classes[y])
    for k, e in enumerate(seq):
        events[e]()
        compare_all(k + 1)
    if acc is not None:
        acc.count("relation_scenarios")
        seen = set()
        for disc, detail in found:
            key = (disc, detail["a"], detail["b"], detail["wrap"])
            if key in seen:
                continue
            seen.add(key)
            acc.violation({"relation": True, "warm": list(warm) if isinstance(warm, tuple) else warm, "events": list(seq),
                           "a": detail["a"], "b": detail["b"], "wrap": detail["wrap"]}, disc, detail)
    return found


def pair_pool(tier):
    specs = static_specs(1 if tier == "quick" else 2)
    if tier == "quick":
        specs = [s for s in specs if isinstance(s, str) or s[0] in ("exactly", "strict", "hasmethod")
                 or (s[0] in ("union", "inter") and len(s) == 3 and s[1] in ("K0", "K1") and s[2] in ("K3", "K4", "int"))]
    return specs


def check_pair(s1, s2, classes, acc):
    mspecs = [{"id": 0, "shape": gen.SHAPES["x"], "types": {"x": s1}, "prio": 0},
              {"id": 1, "shape": gen.SHAPES["x"], "types": {"x": s2}, "prio": 0},
              {"id": 2, "shape": gen.SHAPES["x"], "types": {"x": "O"}, "prio": -1}]
    found = []
    try:
        prog = gen.Program(classes, mspecs, annotate=lambda t, c: annot._ntype(t, c))
    except Exception as e:  # noqa
        found.append((None, "pair:build-refused", {"exc": core.short_exc(e)}))
        prog = None
    for cname in U.WORLD if prog else ():
        app = [i for i, s in enumerate((s1, s2)) if denotes(cname, s)]
        out = prog.call((instance_of(cname),), {})
        if acc is not None:
            acc.count("evaluations")
            acc.h("pair_applicable", str(len(app)))
            if app:
                acc.count("nontrivial")
        ok = (out[0] == "ret" and len(out[1]) == 1 and out[1][0] in (app or [2])) or (out[0] == "ambiguous" and len(app) == 2 and not out[1])
        if not ok:
            found.append((cname, "pair:dispatch-vs-meaning", {"applicable": app, "observed": [out[0], list(out[1])], "exc": out[2] if out[0] != "ret" else None}))
    if acc is not None:
        for cname, disc, detail in found:
            acc.violation({"pair": [s1, s2], "class": cname}, disc, detail)
    return found


def laws(acc, tier):
    names = U.PLAIN
    # equals issubclass on plain classes
    for x, y in itertools.product(names, repeat=2):
        acc.count("evaluations")
        acc.count("law_checks")
        if subclasscheck(U.CLASSES[x], U.CLASSES[y]) != issubclass(U.CLASSES[x], U.CLASSES[y]):
            acc.violation({"a": x, "b": y}, "law:classes-vs-issubclass", {})
    # class + parametrised-generic fragment: transitivity on all triples, argument-wise covariance
    frag = [(n, U.CLASSES[n]) for n in names]
    gens = []
    for n in ("K0", "K1", "K3", "K4", "int", "O"):
        gens.append((f"list[{n}]", list[U.CLASSES[n]]))
        gens.append((f"Iterable[{n}]", typing.Iterable[U.CLASSES[n]]))
        gens.append((f"type[{n}]", type[U.CLASSES[n]]))
    for a, b in itertools.product(("K0", "K1", "int"), repeat=2):
        gens.append((f"dict[{a},{b}]", dict[U.CLASSES[a], U.CLASSES[b]]))
    if tier != "quick":
        for n in ("K0", "K1", "int"):
            gens.append((f"list[list[{n}]]", list[list[U.CLASSES[n]]]))
            gens.append((f"type[list[{n}]]", type[list[U.CLASSES[n]]]))
    frag += gens + [("list", list), ("dict", dict), ("type", type)]

    def sc(a, b):
        try:
            return subclasscheck(a, b)
        except Exception as e:  # noqa
            return "raises:" + type(e).__name__

    table = {}
    for (na, a), (nb, b) in itertools.product(frag, repeat=2):
        table[(na, nb)] = sc(a, b)
        acc.count("evaluations")
        if isinstance(table[(na, nb)], str):
            acc.violation({"a": na, "b": nb}, "law:raises", {"got": table[(na, nb)]})
    for (na, _), in zip(frag):
        if table[(na, na)] is not True:
            acc.violation({"a": na}, "law:not-reflexive", {})
    for (na, _), (nb, _), (nc, _) in itertools.product(frag, repeat=3):
        acc.count("law_checks")
        if table[(na, nb)] is True and table[(nb, nc)] is True and table[(na, nc)] is not True:
            acc.violation({"a": na, "b": nb, "c": nc}, "law:not-transitive", {})
    # covariance: G[a] <= G[b] iff a <= b (same origin, one argument)
    for g in ("list", "Iterable", "type"):
        for a, b in itertools.product(("K0", "K1", "K3", "K4", "int", "O"), repeat=2):
            acc.count("law_checks")
            exp = issubclass(U.CLASSES[a], U.CLASSES[b])
            if table[(f"{g}[{a}]", f"{g}[{b}]")] != exp:
                acc.violation({"a": f"{g}[{a}]", "b": f"{g}[{b}]"}, "law:not-covariant", {"expected": exp, "got": table[(f"{g}[{a}]", f"{g}[{b}]")]})
    for a, b, c, d in itertools.product(("K0", "K1", "int"), repeat=4):
        acc.count("law_checks")
        exp = issubclass(U.CLASSES[a], U.CLASSES[c]) and issubclass(U.CLASSES[b], U.CLASSES[d])
        if table[(f"dict[{a},{b}]", f"dict[{c},{d}]")] != exp:
            acc.violation({"a": f"dict[{a},{b}]", "b": f"dict[{c},{d}]"}, "law:not-covariant", {"expected": exp})
    # a subclass origin on the left (list below Iterable / Sequence, dict below Mapping): still argument-wise
    import collections.abc as cabc

    cross = [("list", list, "Iterable", typing.Iterable, 1), ("list", list, "Sequence", cabc.Sequence, 1), ("dict", dict, "Mapping", cabc.Mapping, 2),
             ("Iterable", typing.Iterable, "list", list, 1)]
    names6 = ("K0", "K1", "K3", "K4", "int", "O")
    for g1n, g1, g2n, g2, ar in cross:
        for a in itertools.product(names6 if ar == 1 else ("K0", "K1", "int"), repeat=ar):
            for b in itertools.product(names6 if ar == 1 else ("K0", "K1", "int"), repeat=ar):
                A = g1[tuple(U.CLASSES[x] for x in a)] if ar > 1 else g1[U.CLASSES[a[0]]]
                B = g2[tuple(U.CLASSES[x] for x in b)] if ar > 1 else g2[U.CLASSES[b[0]]]
                acc.count("law_checks")
                acc.count("evaluations")
                origin_ok = issubclass(g1 if isinstance(g1, type) else typing.get_origin(g1) or cabc.Iterable, typing.get_origin(B) or g2)
                exp = origin_ok and all(issubclass(U.CLASSES[x], U.CLASSES[y]) for x, y in zip(a, b))
                got = sc(A, B)
                if got != exp:
                    acc.violation({"a": f"{g1n}[{','.join(a)}]", "b": f"{g2n}[{','.join(b)}]"}, "law:cross-origin-not-argument-wise", {"expected": exp, "got": got})


def deferred(acc):
    """Deferred[...] on a module that is not imported when the annotation is created."""
    d = tempfile.mkdtemp(prefix="vt_c13_")
    modname = f"vt_deferred_{os.getpid()}"
    pkg = f"vt_deferredpkg_{os.getpid()}"
    try:
        with open(os.path.join(d, modname + ".py"), "w") as f:
            f.write("class Base:\n    pass\n\nclass Derived(Base):\n    pass\n\nclass Other:\n    pass\n")
        # a package: the target class in one module, a subclass in a sibling module, one re-exported at top level
        os.mkdir(os.path.join(d, pkg))
        with open(os.path.join(d, pkg, "__init__.py"), "w") as f:
            f.write("")
        with open(os.path.join(d, pkg, "base.py"), "w") as f:
            f.write("class Oven:\n    pass\n\nclass Toaster(Oven):\n    pass\n")
        with open(os.path.join(d, pkg, "other.py"), "w") as f:
            f.write("from .base import Oven\n\nclass Kiln(Oven):\n    pass\n\nclass Fridge:\n    pass\n")
        sys.path.insert(0, d)
        assert pkg not in sys.modules
        TP = Deferred[f"{pkg}.base.Oven"]
        other = importlib.import_module(f"{pkg}.other")
        base = importlib.import_module(f"{pkg}.base")
        for C, exp in ((base.Oven, True), (base.Toaster, True), (other.Kiln, True), (other.Fridge, False), (int, False)):
            acc.count("evaluations")
            got = subclasscheck(C, TP)
            if got is not exp:
                acc.violation({"deferred": "package", "class": C.__name__}, "deferred-vs-meaning", {"expected": exp, "got": got})
            if C is not int:
                ovp = Ovld()

                def fp(x: TP):
                    return "T"

                def gp(x: object):
                    return "O"

                ovp.register(fp)
                ovp.register(gp, priority=-1)
                acc.count("evaluations")
                r = ovp(C())
                if (r == "T") is not exp:
                    acc.violation({"deferred": "package-dispatch", "class": C.__name__}, "deferred-dispatch-vs-meaning", {"expected": exp, "got": r})
        assert modname not in sys.modules
        T = Deferred[f"{modname}.Base"]
        for phase in ("before-import", "after-import"):
            # classes from other modules never match, imported or not
            for C in (int, U.K0):
                acc.count("evaluations")
                if subclasscheck(C, T) is not False:
                    acc.violation({"deferred": phase, "class": C.__name__}, "deferred-matches-foreign-class", {})
            if phase == "before-import":
                mod = importlib.import_module(modname)
        for cname, exp in (("Base", True), ("Derived", True), ("Other", False)):
            C = getattr(mod, cname)
            acc.count("evaluations")
            if subclasscheck(C, T) is not exp:
                acc.violation({"deferred": "after-import", "class": cname}, "deferred-vs-meaning", {"expected": exp})
            ov = Ovld()
            log = []

            def f(x: T):
                log.append(0)
                return "T"

            def g(x: object):
                log.append(1)
                return "O"

            ov.register(f)
            ov.register(g, priority=-1)
            acc.count("evaluations")
            r = ov(C())
            if (r == "T") is not exp:
                acc.violation({"deferred": "dispatch", "class": cname}, "deferred-dispatch-vs-meaning", {"expected": exp, "got": r})
        # created after the import: Deferred returns the class itself
        T2 = Deferred[f"{modname}.Base"]
        acc.count("evaluations")
        if T2 is not mod.Base:
            acc.violation({"deferred": "created-after-import"}, "deferred-not-the-class", {})
    finally:
        sys.path.remove(d)
        sys.modules.pop(modname, None)
        for k in [k for k in sys.modules if k.startswith(pkg)]:
            sys.modules.pop(k, None)
        import shutil

        shutil.rmtree(d, ignore_errors=True)


def replay(case):
    acc = core.Acc(PROP)
    classes = dict(U.CLASSES)
    classes.update(U.WORLD_CLASSES)
    if case.get("relation"):
        w = case["warm"]
        found = run_relation(tuple(w) if isinstance(w, list) else w, tuple(case["events"]), None)
        return [f for f in found if (f[1]["a"], f[1]["b"], f[1]["wrap"]) == (case["a"], case["b"], case["wrap"])]
    if "pair" in case:
        return [(d, x) for c, d, x in check_pair(case["pair"][0], case["pair"][1], classes, None) if c == case["class"]]
    if "type" in case and "class" in case:
        s, cname = case["type"], case["class"]
        T = annot._ntype(s, classes)
        exp = denotes(cname, s)
        if case.get("level") == "dispatch":
            mspecs = [{"id": 0, "shape": gen.SHAPES["x"], "types": {"x": s}, "prio": 0},
                      {"id": 1, "shape": gen.SHAPES["x"], "types": {"x": "O"}, "prio": -1}]
            out = gen.Program(classes, mspecs, annotate=lambda t, c: annot._ntype(t, c)).call((instance_of(cname),), {})
            return [] if out[0] == "ret" and out[1] == ((0,) if exp else (1,)) else [("dispatch-vs-meaning", out[:2])]
        try:
            got = subclasscheck(U.WORLD_CLASSES.get(cname) or U.CLASSES[cname], T)
        except Exception as e:  # noqa
            got = repr(e)
        return [] if got is exp else [("subclasscheck-vs-meaning", got)]
    if "deferred" in case:
        deferred(acc)
    else:
        laws(acc, "thorough")
    return [(d, None) for _, d in acc.viol_ids]


def main(tier):
    t0 = time.time()
    merged = core.run_sharded(__name__, "shard", tier)
    return core.finish(
        PROP, tier, "model_checking", merged, t0,
        rule="every static type of the universe (classes, ABC with virtual subclass, protocol, Union, Intersection, Exactly, "
             "StrictSubclass, HasMethod to nesting depth 2; thorough: every depth-1 type nested) x every class of a closed world: subclasscheck(C, T) must "
             "equal membership in T's denotation computed from the documented meaning, and a function with f(x: T) plus an object "
             "fallback must run the T method on an instance of C iff C is in the denotation; every ordered pair of depth-1 types "
             "(quick: classes, Exactly, StrictSubclass, HasMethod and a selection of unions / intersections) as two methods of one "
             "function + fallback (thorough: every ordered pair of the depth-2 selection): the method that runs must be one whose type's denotation contains C (ambiguity only when both do); Deferred[...] on a scratch module "
             "before and after import; laws: reflexivity, == issubclass on all class pairs, transitivity on all triples and "
             "argument-wise covariance on the class + parametrised generic fragment; histories in which the subclass relation itself changes "
             "(C12's worlds and events): after every event subclasscheck - plain, inside list / type, against a Union - and a function built "
             "after the event must follow issubclass; argument-wise covariance (same origin, and a subclass origin on the left: list / Iterable, list / Sequence, dict / Mapping); non-trivial = (T, C) with C in [[T]]",
        assumptions=["denotation rules of vt/c13.py are the documented meaning (docs/types.md)"],
    )
