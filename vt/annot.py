"""Type specs -> real annotations (implementation side) and their reference meaning (spec side).

See vt/ref.py for the spec language.  The two interpreters in this module share nothing but
the spec: ``annotate`` calls the library's public constructors, ``Sem`` is plain Python.
"""

import collections.abc
import typing

from . import env  # noqa: F401

import ovld
from ovld import Dependent
from ovld.types import Exactly, HasMethod, Intersection, StrictSubclass, Union as OvUnion  # noqa: F401

from .core import HarnessError, canon

# ----------------------------------------------------------------------------------------
# predicates on the integer domain {0, 1, 2}: all 8 subsets; each logs what it is asked

PRED_LOG = []


def _mkpred(mask):
    def pred(v):
        PRED_LOG.append((f"p{mask}", v))
        return isinstance(v, int) and 0 <= v <= 2 and bool(mask >> v & 1)

    pred.__name__ = pred.__qualname__ = f"p{mask}"
    return pred


PREDS = {f"p{m}": _mkpred(m) for m in range(8)}


def _mkattr(name):
    # predicates for non-int bounds: true iff the instance carries the attribute tag
    def pred(v):
        PRED_LOG.append((name, v))
        return getattr(v, "tag", None) == name

    pred.__name__ = pred.__qualname__ = name
    return pred


for _n in ("qa", "qb"):
    PREDS[_n] = _mkattr(_n)


def pure_pred(name, v):
    if name.startswith("p"):
        m = int(name[1:])
        return isinstance(v, int) and 0 <= v <= 2 and bool(m >> v & 1)
    return getattr(v, "tag", None) == name


BUILTINS = {"int": int, "str": str, "float": float, "list": list, "dict": dict, "tuple": tuple, "set": set,
            "object": object, "O": object, "bool": bool, "type": type, "bytes": bytes, "NoneType": type(None),
            "Sequence": collections.abc.Sequence, "Collection": collections.abc.Collection,
            "Mapping": collections.abc.Mapping, "Iterable": collections.abc.Iterable}

_ANN_CACHE = {}


# the documented ways of writing a value-dependent type; one per program (set by the caller)
DEP_FLAVOURS = ("Dependent", "check-fn", "check-fn-param", "check-class", "subclass", "rebound", "rebound-shared")
_SHARED_CHECKS = {}
DEP_FLAVOUR = ["Dependent"]


def make_dependent(bound, pred, flavour):
    from ovld.dependent import ParametrizedDependentType, dependent_check

    base = PREDS[pred]
    if flavour == "Dependent":
        return Dependent[bound, base]
    if flavour == "rebound-shared":
        # ONE named check per predicate, re-bound with Dependent[bound, T] wherever it is used: binding it a second time
        # with another bound must not disturb the first use
        t = _SHARED_CHECKS.get(pred)
        if t is None:
            def fns(value):
                return base(value)

            fns.__name__ = fns.__qualname__ = pred
            fns.__annotations__ = {"value": object}
            t = _SHARED_CHECKS[pred] = dependent_check(fns)
        return Dependent[bound, t]
    if flavour in ("check-fn", "rebound"):
        def fn(value):
            return base(value)

        fn.__name__ = fn.__qualname__ = pred
        fn.__annotations__ = {"value": object if flavour == "rebound" else bound}
        t = dependent_check(fn)
        return Dependent[bound, t] if flavour == "rebound" else t
    if flavour == "check-fn-param":
        def fnp(value, tag):
            return base(value)

        fnp.__name__ = fnp.__qualname__ = pred
        fnp.__annotations__ = {"value": bound}
        return dependent_check(fnp)[pred]
    if flavour == "check-class":
        def check(self, value):
            return base(value)

        check.__annotations__ = {"value": bound}
        return dependent_check(type(pred, (), {"check": check}))()
    if flavour == "subclass":
        # as the repository's own tests do it: a ParametrizedDependentType subclass with default_bound and check
        return type(pred, (ParametrizedDependentType,), {"default_bound": lambda self, *_: bound, "check": lambda self, value: base(value)})(pred)
    raise HarnessError(f"unknown dependent flavour {flavour}")


def annotate(spec, classes):
    """Build the real annotation for a type spec (cached per class environment)."""
    key = (id(classes), DEP_FLAVOUR[0], canon(spec))
    a = _ANN_CACHE.get(key)
    if a is None:
        a = _annotate(spec, classes)
        if len(_ANN_CACHE) > 20000:
            _ANN_CACHE.clear()
        _ANN_CACHE[key] = a
    return a


def _cls(name, classes):
    if name in classes:
        return classes[name]
    if name in BUILTINS:
        return BUILTINS[name]
    raise HarnessError(f"unknown class name {name}")


def _ntype(spec, classes):
    """Argument of a constructor that takes *types* (it does not normalise annotations itself)."""
    from ovld.types import normalize_type

    a = annotate(spec, classes)
    return a if isinstance(spec, str) else normalize_type(a, None)


def _annotate(spec, classes):
    if isinstance(spec, str):
        return _cls(spec, classes)
    op, *rest = spec
    if op == "lit":
        return typing.Literal[tuple(rest)]
    if op == "dep":
        bound, pred = rest
        t = make_dependent(_ntype(bound, classes), pred, DEP_FLAVOUR[0])
        t._vt_key = "dep:" + canon(spec)
        return t
    if op == "union":
        return typing.Union[tuple(annotate(r, classes) for r in rest)]
    if op == "ounion":  # ovld's own Union constructor (keeps dependent members)
        return OvUnion[tuple(_ntype(r, classes) for r in rest)]
    if op == "inter":
        return Intersection[tuple(_ntype(r, classes) for r in rest)]
    if op == "exactly":
        return Exactly[_ntype(rest[0], classes)]
    if op == "strict":
        return StrictSubclass[_ntype(rest[0], classes)]
    if op == "hasmethod":
        return HasMethod[rest[0]]
    if op == "type":
        return type[annotate(rest[0], classes)]
    if op == "gen":
        origin = _cls(rest[0], classes)
        args = tuple(annotate(r, classes) for r in rest[1:])
        return origin[args if len(args) != 1 else args[0]]
    if op == "tgen":
        # the typing spelling of a parametrised generic (typing.List[...] for list[...], typing.Type[...] for type[...])
        alias = {"list": typing.List, "dict": typing.Dict, "type": typing.Type, "Iterable": typing.Iterable, "Sequence": typing.Sequence,
                 "set": typing.Set}[rest[0]]
        args = tuple(annotate(r, classes) for r in rest[1:])
        return alias[args if len(args) != 1 else args[0]]
    if op == "tuple":
        return tuple[tuple(annotate(r, classes) for r in rest)] if rest else tuple[()]
    if op == "regexp":
        return ovld.dependent.Regexp[rest[0]]
    if op == "startswith":
        return ovld.dependent.StartsWith[rest[0]]
    if op == "endswith":
        return ovld.dependent.EndsWith[rest[0]]
    if op == "haskey":
        return ovld.dependent.HasKey[tuple(rest)] if len(rest) != 1 else ovld.dependent.HasKey[rest[0]]
    raise HarnessError(f"unknown type spec {spec!r}")


# ----------------------------------------------------------------------------------------
# reference semantics


class Abstain(Exception):
    """The statements define no answer for this question (the oracle must not judge)."""


class Sem:
    def __init__(self, classes):
        self.classes = classes

    def cls(self, name):
        return _cls(name, self.classes)

    # R1: reference instance relation
    def instance(self, v, t):
        if t == "type":  # bare type behaves as type[object]
            t = ["type", "O"]
        if isinstance(t, str):
            return isinstance(v, self.cls(t))
        op, *rest = t
        if op == "lit":
            return any(type(v) is type(x) and v == x for x in rest)
        if op == "dep":
            return self.instance(v, rest[0]) and pure_pred(rest[1], v)
        if op in ("union", "ounion"):
            return any(self.instance(v, r) for r in rest)
        if op == "inter":
            return all(self.instance(v, r) for r in rest)
        if op == "exactly":
            return type(v) is self.cls(rest[0])
        if op == "strict":
            c = self.cls(rest[0])
            return isinstance(v, c) and type(v) is not c
        if op == "hasmethod":
            return hasattr(type(v), rest[0])
        if op == "type":
            return self.is_type_object(v) and self.subtype(v, rest[0])
        if op == "tuple":
            return isinstance(v, tuple) and len(v) == len(rest) and all(self.instance(x, r) for x, r in zip(v, rest))
        if op == "gen":
            # the documented shallow element checks
            origin = self.cls(rest[0])
            if not isinstance(v, origin):
                return False
            if issubclass(origin, collections.abc.Mapping):
                for k in v:
                    return self.instance(k, rest[1]) and self.instance(v[k], rest[2])
                return True
            for x in v:
                return self.instance(x, rest[1])
            return True
        if op == "regexp":
            import re

            return isinstance(v, str) and re.search(rest[0], v) is not None
        if op == "startswith":
            return isinstance(v, str) and v.startswith(rest[0])
        if op == "endswith":
            return isinstance(v, str) and v.endswith(rest[0])
        if op == "haskey":
            return isinstance(v, collections.abc.Mapping) and all(k in v for k in rest)
        raise HarnessError(f"instance: unknown spec {t!r}")

    # type objects passed as arguments (C14)
    def is_type_object(self, v):
        return isinstance(v, type) or typing.get_origin(v) is not None or v is typing.Any

    def subtype(self, v, t):
        """Is the passed type object v a subtype of spec t (R1's ref_subtype)."""
        if v is typing.Any:
            v = object
        if isinstance(t, str):
            c = self.cls(t)
            o = typing.get_origin(v) or v
            if typing.get_origin(v) is not None:
                return isinstance(o, type) and issubclass(o, c)
            return isinstance(v, type) and issubclass(v, c)
        op, *rest = t
        if op == "gen":
            origin = self.cls(rest[0])
            vo = typing.get_origin(v)
            if vo is None or not (isinstance(vo, type) and issubclass(vo, origin)):
                return False
            vargs = typing.get_args(v)
            if len(vargs) != len(rest) - 1:
                return False
            return all(self.subtype(va, r) for va, r in zip(vargs, rest[1:]))
        raise Abstain(f"subtype against {t!r}")

    def bound_of(self, t):
        if isinstance(t, str):
            return t
        op, *rest = t
        if op == "dep":
            return self.bound_of(rest[0])
        if op == "lit":
            kinds = {type(x).__name__ for x in rest}
            if len(kinds) == 1:
                return kinds.pop()
            raise Abstain("mixed-type literal has no single bound")
        if op == "tuple":
            return "tuple"
        if op in ("regexp", "startswith", "endswith"):
            return "str"
        if op == "haskey":
            return "Mapping"
        if op == "gen":
            return rest[0]
        raise Abstain(f"bound of {t!r}")

    def is_dependent(self, t):
        return not isinstance(t, str) and t[0] in ("lit", "dep", "tuple", "regexp", "startswith", "endswith", "haskey", "gen")

    def spec_subtype(self, x, y):
        """Between the arguments of two type[...] annotations."""
        if isinstance(y, str):
            cy = self.cls(y)
            cx = self.cls(x if isinstance(x, str) else x[1])
            return issubclass(cx, cy)
        if isinstance(x, str):
            return False  # a bare class is not below a parametrised generic
        return (issubclass(self.cls(x[1]), self.cls(y[1])) and len(x) == len(y)
                and all(self.spec_subtype(p, q) for p, q in zip(x[2:], y[2:])))

    # R2: "a is the same as or more specific than b"
    def leq(self, a, b):
        if a == "type":
            a = ["type", "O"]
        if b == "type":
            b = ["type", "O"]
        if a == b:
            return True
        ta = not isinstance(a, str) and a[0] == "type"
        tb = not isinstance(b, str) and b[0] == "type"
        if ta and tb:
            if self.spec_subtype(a[1], b[1]):
                return True
            if self.spec_subtype(b[1], a[1]):
                return False
            xa, xb = a[1], b[1]
            oa = xa if isinstance(xa, str) else xa[1]
            ob = xb if isinstance(xb, str) else xb[1]
            if oa != ob and not (isinstance(xa, str) and isinstance(xb, str)):
                raise Abstain("type[...] annotations with different generic origins")
            return False
        if ta or tb:
            other = b if ta else a
            if isinstance(other, str) and self.cls(other) is not type and isinstance(self.cls(other), type) and issubclass(self.cls(other), type):
                raise Abstain("order between type[...] and a metaclass annotation")
        if ta:
            return isinstance(b, str) and self.cls(b) is object
        if tb:
            return False
        sa, sb = isinstance(a, str), isinstance(b, str)
        if sa and sb:
            return issubclass(self.cls(a), self.cls(b))
        da, db = self.is_dependent(a), self.is_dependent(b)
        if da and sb:
            ba = self.cls(self.bound_of(a))
            cb = self.cls(b)
            return issubclass(ba, cb) or issubclass(cb, ba)
        if sa and db:
            return False
        if da and db:
            if a[0] == "tuple" and b[0] == "tuple":
                return len(a) == len(b) and all(self.leq(x, y) for x, y in zip(a[1:], b[1:]))
            ba, bb = self.cls(self.bound_of(a)), self.cls(self.bound_of(b))
            if ba is bb:
                return False
            return issubclass(ba, bb)
        raise Abstain(f"order between {a!r} and {b!r}")
