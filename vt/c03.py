"""C03 -- the dispatcher passes arguments, defaults, results and errors through intact (E1 vs R1-R3, R7)."""

import itertools
import time

from . import core, gen
from .ref import RefOvld, kinds_match

PROP = "C03"

import typing  # noqa: E402

from ovld import Dependent as ovld_Dependent, Ovld  # noqa: E402

# ----------------------------------------------------------------------------------------
# signature space

POS_CONFIGS = [()]
for kinds in (("P",), ("N",)):
    for opts in ((0,), (1,)):
        POS_CONFIGS.append(tuple(zip(kinds, opts)))
for kinds in (("P", "P"), ("P", "N"), ("N", "N")):
    for opts in ((0, 0), (0, 1), (1, 1)):
        POS_CONFIGS.append(tuple(zip(kinds, opts)))

KW_FULL = [()]
for nm in ("k", "j"):
    for o in (0, 1):
        KW_FULL.append(((nm, o),))
for ok in (0, 1):
    for oj in (0, 1):
        KW_FULL.append((("k", ok), ("j", oj)))
KW_QUICK = [(), (("k", 0),), (("k", 1),), (("k", 0), ("j", 1)), (("k", 1), ("j", 1))]
KW_SMALL = [(), (("k", 1),)]

POS3 = [tuple(zip(("N", "N", "N"), o)) for o in ((0, 0, 0), (0, 0, 1), (0, 1, 1))]


def shape_of(pos, kw, names, self_):
    toks = ["self:S:0"] if self_ else []
    for (kind, opt), nm in zip(pos, names):
        toks.append(f"{nm}:{kind}:{opt}")
    for nm, opt in kw:
        toks.append(f"{nm}:K:{opt}")
    return " ".join(toks)


def sigs(pos_configs, kw_configs):
    return [(p, k) for p in pos_configs for k in kw_configs]


def c03_spaces(tier):
    """(name, sigsA, sigsB (None = single-method sets), typesA, typesB, namings, carriers, bodies)"""
    sp = []
    if tier == "quick":
        S = sigs(POS_CONFIGS, KW_QUICK)
        R = sigs(POS_CONFIGS, KW_SMALL)
        sp.append(("single", S, None, ("int", "O"), None, ("uniform",), ("plain", "self"), ("ret", "raise", "ret-rw")))
        sp.append(("pairs", S, S, ("int",), ("str", "O"), ("uniform",), ("plain",), ("ret",)))
        sp.append(("pairs-names-carriers", R, R, ("int",), ("str", "O"), ("uniform", "differing"), ("plain", "self", "selfovld"), ("ret", "raise", "ret-rw")))
        sp.append(("pairs-differing-prefix", R, R, ("int",), ("str", "O"), ("differing-prefix",), ("plain", "self"), ("ret",)))
        sp.append(("dependent-above-plain", R, R, ("Lhit", "Lmiss", "Dhit", "Dmiss"), ("int", "O"), ("uniform",), ("plain", "self"), ("ret",)))
    else:
        S = sigs(POS_CONFIGS + POS3, KW_FULL)
        R = sigs(POS_CONFIGS, KW_QUICK)
        sp.append(("single", S, None, ("int", "str", "O"), None, ("uniform",), ("plain", "self", "selfovld"), ("ret", "raise", "ret-rw")))
        sp.append(("pairs", S, S, ("int", "O"), ("str", "O", "int"), ("uniform",), ("plain",), ("ret",)))
        sp.append(("pairs-names-carriers", R, R, ("int",), ("str", "O"), ("uniform", "differing"), ("plain", "self", "selfovld"), ("ret", "raise", "ret-rw")))
        sp.append(("dependent-above-plain", R, R, ("Lhit", "Lmiss", "Dhit", "Dmiss"), ("int", "O", "str"), ("uniform", "differing"), ("plain", "self", "selfovld"), ("ret", "ret-rw")))
        sp.append(("pairs-differing-prefix", sigs(POS_CONFIGS + POS3, KW_SMALL), sigs(POS_CONFIGS + POS3, KW_SMALL), ("int",), ("str", "O"), ("differing-prefix",), ("plain", "self", "selfovld"), ("ret", "ret-rw")))
        T = sigs(POS_CONFIGS, KW_SMALL)
        sp.append(("triples", T, T, ("int",), ("str",), ("uniform",), ("plain",), ("ret",)))
    return sp


def iter_sets(tier, shard, nshards):
    idx = 0
    for name, SA, SB, TA, TB, namings, carriers, bodies in c03_spaces(tier):
        for naming in namings:
            for carrier in carriers:
                for body in bodies:
                    if SB is None:
                        combos = ((a, ta) for a in SA for ta in TA)
                        for a, ta in combos:
                            if idx % nshards == shard:
                                yield name, [(a, ta)], naming, carrier, body
                            idx += 1
                    elif name == "triples":
                        for a in SA:
                            for b in SB:
                                for c in SB:
                                    if idx % nshards == shard:
                                        yield name, [(a, "int"), (b, "str"), (c, "O")], naming, carrier, body
                                    idx += 1
                    else:
                        for a in SA:
                            for b in SB:
                                if naming == "differing-prefix" and len(a[0]) != len(b[0]):
                                    continue  # the shared last name would sit at two different positions: rightly refused
                                for ta in TA:
                                    for tb in TB:
                                        if idx % nshards == shard:
                                            yield name, [(a, ta), (b, tb)], naming, carrier, body
                                        idx += 1


def mspecs_for(sigset, naming, carrier, body):
    ms = []
    for i, ((pos, kw), t) in enumerate(sigset):
        names = ("x", "y", "z") if (naming == "uniform" or i == 0) else ("a", "b", "c") if naming == "differing" else \
            {1: ("a",), 2: ("a", "z"), 3: ("a", "b", "z")}.get(len(pos), ("a", "b", "z"))
        if naming == "differing-prefix" and i == 0:
            names = {1: ("x",), 2: ("x", "z"), 3: ("x", "y", "z")}.get(len(pos), ("x", "y", "z"))
        shape = shape_of(pos, kw, names, carrier != "plain")
        types = {nm: t for _, nm in zip(pos, names)}
        for nm, _ in kw:
            types[nm] = "O"
        ms.append({"id": i, "shape": shape, "types": types, "prio": 0, "body": body})
    return ms


# ----------------------------------------------------------------------------------------
# values and semantics


class Val:
    """Distinct objects for every slot so that swaps and substitutions are visible."""

    def __init__(self):
        self.pos = {(i, t): (int(f"{1000 + i}") if t == "int" else "".join(["s", str(i)])) for i in range(5) for t in ("int", "str")}
        self.kw = {nm: int(f"{2000 + j}") for j, nm in enumerate(("k", "j"))}


# value-dependent annotations over int: "hit" ones accept the int that Val puts into the first slot (1000), "miss" ones
# accept no value of the corpus, so that the generated dependent dispatcher takes its fall-through branch
DEP_SEM = {"Lhit": lambda v: type(v) is int and v == 1000, "Lmiss": lambda v: False,
           "Dhit": lambda v: isinstance(v, int) and v == 1000, "Dmiss": lambda v: False}
CLASSES = {"int": int, "str": str, "O": object,
           "Lhit": typing.Literal[1000], "Lmiss": typing.Literal[999],
           "Dhit": ovld_Dependent[int, lambda v: v == 1000], "Dmiss": ovld_Dependent[int, lambda v: False]}


class Sem:
    def instance(self, v, t):
        if t in DEP_SEM:
            return DEP_SEM[t](v)
        return isinstance(v, CLASSES[t])

    def leq(self, a, b):
        if a == b:
            return True
        if a in DEP_SEM:
            return b in ("int", "O")
        if b in DEP_SEM:
            return False
        return issubclass(CLASSES[a], CLASSES[b])


def call_shapes(max_pos):
    out = []
    for n in range(0, max_pos + 2):
        for ts in itertools.product(("int", "str"), repeat=n):
            for kws in ((), ("k",), ("j",), ("k", "j")):
                out.append((ts, kws))
    return out


def build(mspecs, carrier):
    log = []
    fref = [None]
    ov = Ovld()
    defaults = {}
    rets = {}
    for ms in mspecs:
        env = {"__ret": gen.Sentinel(f"ret:{ms['id']}"), "__exc": KeyError(f"exc:{ms['id']}")}
        m2 = dict(ms, env=env)
        fn, d = gen.make_method(m2, CLASSES, log, fref, lambda t, c: c[t])
        defaults[ms["id"]] = d
        rets[ms["id"]] = env
        ov.register(fn, priority=0)
    fref[0] = ov
    inst = None
    if carrier == "plain":
        entries = {"dispatch": lambda: ov.dispatch, "ovld": lambda: ov}
    elif carrier == "self":
        cls = type("Carrier", (), {"f": ov.dispatch, "__module__": "vtgen"})
        inst = cls()
        entries = {"dispatch": lambda: inst.f}
    else:  # the Ovld object itself as class attribute (descriptor protocol)
        cls = type("Carrier", (), {"f": ov, "__module__": "vtgen"})
        inst = cls()
        entries = {"dispatch": lambda: inst.f}
    return ov, entries, log, defaults, rets, inst


def kwpos_allowed(ref):
    """Documented rule for passing positionals by keyword: all positional names uniform and
    pos-or-keyword, and max positional - min required <= 1."""
    ms = ref.methods
    if any(p[1] != "N" for m in ms for p in m.pos):
        return False
    names = {tuple(p[0] for p in m.pos)[: min(len(x.pos) for x in ms)] for m in ms}
    longest = max((tuple(p[0] for p in m.pos) for m in ms), key=len)
    if any(tuple(p[0] for p in m.pos) != longest[: len(m.pos)] for m in ms):
        return False
    if not longest:
        return False
    return max(m.max_pos for m in ms) - min(m.req_pos for m in ms) <= 1


def check_set(mspecs, carrier, body, acc, space, naming, only_call=None, fresh=False):
    """All call shapes x entry points for one signature set. Returns discrepancies when acc is None.

    One function instance serves all calls unless ``fresh``; every discrepancy found on the shared
    instance is re-confirmed on a fresh one (history effects are C04's subject)."""
    if acc is not None and not fresh:
        shared = build(mspecs, carrier)
        sub = core.Acc(PROP)
        _check_set(mspecs, carrier, body, sub, space, naming, None, shared)
        acc.n.update(sub.n)
        for k, v in sub.hist.items():
            for kk, c in v.items():
                acc.h(k, kk, c)
        for rec in sub.viol:
            c = rec["case"]["call"]
            again = _check_set(mspecs, carrier, body, None, space, naming,
                               (tuple(c["types"]), tuple(c["kw"]), tuple(c["variant"]), c["entry"]), None)
            for disc, detail in again:
                acc.violation(rec["case"], disc, detail)
        if len(sub.viol_ids) > len(sub.viol):
            raise core.HarnessError("violation record cap hit inside one signature set")
        return []
    return _check_set(mspecs, carrier, body, acc, space, naming, only_call, None)


def _check_set(mspecs, carrier, body, acc, space, naming, only_call, shared):
    ref = RefOvld(mspecs, Sem())
    V = Val()
    max_pos = max(m.max_pos for m in ref.methods)
    found = []
    shapes = call_shapes(max_pos) if only_call is None else [tuple(only_call[:2])]
    kwpos = kwpos_allowed(ref)
    longest = max((tuple(p[0] for p in m.pos) for m in ref.methods), key=len)
    for ts, kws in shapes:
        variants = [("plain", None)]
        if kwpos and ts and only_call is None:
            variants += [("kwpos", j) for j in range(len(ts))]  # positionals from index j on passed by name
        elif not kwpos and ts and only_call is None:
            # names differ somewhere: by the documented rule positionals are then strictly positional. A trailing
            # positional whose name IS the same in every method may still be tried by name: the call may be refused,
            # but if it is accepted the value must arrive (never be dropped silently)
            last = len(ts) - 1
            nm = {m.pos[last][0] for m in ref.methods if len(m.pos) > last}
            if len(nm) == 1 and all(p[1] == "N" for m in ref.methods for p in m.pos[last:last + 1]):
                variants += [("kwlast", last)]
                # ... and with the positionals between the supplied ones and that last one left out (binding integrity only)
                variants += [("kwskip", L) for L in range(0, last)]
        elif only_call is not None and len(only_call) > 2:
            variants = [only_call[2]]
            ts, kws = only_call[0], only_call[1]
        for vkind, j in variants:
            for entry in (("dispatch", "ovld") if carrier == "plain" else ("dispatch",)):
                if only_call is not None and len(only_call) > 3 and entry != only_call[3]:
                    continue
                ov, entries, log, defaults, rets, inst = shared or build(mspecs, carrier)
                del log[:]
                args = tuple(V.pos[(i, t)] for i, t in enumerate(ts))
                kwargs = {k: V.kw[k] for k in kws}
                rkind, rm = ref.decide(args, kwargs)
                call_args, call_kwargs = args, dict(kwargs)
                if vkind == "kwpos":
                    if len(ts) > len(longest):
                        continue
                    call_args = args[:j]
                    for i in range(j, len(ts)):
                        call_kwargs[longest[i]] = args[i]
                if vkind == "kwskip":
                    nm = next(m.pos[len(ts) - 1][0] for m in ref.methods if len(m.pos) > len(ts) - 1)
                    call_args = args[:j]
                    call_kwargs[nm] = args[-1]
                    out = gen.run_call(entries[entry](), call_args, call_kwargs, log)
                    if acc is not None:
                        acc.count("evaluations")
                    if out[0] == "ret" or (body == "raise" and out[0] == "exc:KeyError"):
                        if acc is not None:
                            acc.count("nontrivial")
                        mid, argd = log[0]
                        m = ref.by_id[mid]
                        bad = None
                        if argd.get(nm) is not args[-1]:
                            bad = ("binding:by-name-value-lost", {"param": nm, "got": repr(argd.get(nm))[:60], "want": repr(args[-1])[:60]})
                        for i in range(j):
                            if argd[m.pos[i][0]] is not args[i]:
                                bad = ("binding:positional", {"param": m.pos[i][0]})
                        for k in kws:
                            if argd.get(k) is not kwargs[k]:
                                bad = ("binding:keyword", {"param": k})
                        if bad:
                            case = {"space": space, "methods": mspecs, "carrier": carrier, "naming": naming, "body": body,
                                    "call": {"types": list(ts), "kw": list(kws), "variant": [vkind, j], "entry": entry}}
                            if acc is not None:
                                acc.violation(case, bad[0], bad[1])
                            else:
                                found.append(bad)
                    elif acc is not None:
                        acc.count("by_name_refused")
                    continue
                if vkind == "kwlast":
                    # the last supplied positional by name, and every optional positional before it left out when the
                    # reference method allows that (this is the shape that loses the value when anything does)
                    nm = next(m.pos[j][0] for m in ref.methods if len(m.pos) > j)
                    lead = args[:j]
                    call_args = lead
                    call_kwargs[nm] = args[j]
                out = gen.run_call(entries[entry](), call_args, call_kwargs, log)
                okind = out[0]
                disc = None
                detail = {"expected": rkind, "observed": okind}
                if acc is not None:
                    acc.count("evaluations")
                    acc.h("expected", rkind)
                    if (len(ts) < max_pos or kws) and rkind == "ret":
                        acc.count("nontrivial")
                if rkind == "ambiguous":
                    if acc is not None:
                        acc.count("skipped_ambiguous")
                    continue
                if vkind == "kwlast":
                    # lenient oracle: refusing is fine; an accepted call must be the reference call with its bindings
                    if okind != "ret" and not (body == "raise" and okind == "exc:KeyError"):
                        if acc is not None:
                            acc.count("by_name_refused")
                        continue
                    if rkind != "ret":
                        continue
                if rkind in ("nomethod", "rejected"):
                    if vkind == "kwpos":
                        continue  # what a keyword-passed positional does when nothing matches is C02's
                    if not kinds_match(rkind, okind) and not (body == "raise" and False):
                        disc = f"{rkind}->{okind}"
                        detail["exc"] = out[2]
                else:
                    m = rm
                    exp_kind = "ret" if body in ("ret", "ret-rw") else "exc:KeyError"
                    if okind != exp_kind:
                        disc = f"accepted-call:{exp_kind}->{okind}"
                        detail["exc"] = out[2] if okind.startswith("exc") else None
                    elif out[1] != (m.id,):
                        disc = "wrong-method"
                        detail["trace"] = list(out[1])
                    else:
                        # R7 bindings by identity
                        argd = log[0][1]
                        for i, (nm, kind, opt) in enumerate(m.pos):
                            exp = args[i] if i < len(args) else defaults[m.id][nm]
                            if argd[nm] is not exp:
                                disc = "binding:positional" if i < len(args) else "binding:default"
                                detail.update(param=nm, got=repr(argd[nm])[:60], want=repr(exp)[:60])
                        for nm in m.kw:
                            exp = kwargs[nm] if nm in kwargs else defaults[m.id][nm]
                            if argd[nm] is not exp:
                                disc = "binding:keyword" if nm in kwargs else "binding:kwdefault"
                                detail.update(param=nm, got=repr(argd[nm])[:60], want=repr(exp)[:60])
                        if carrier != "plain" and argd.get("self") is not inst:
                            disc = "binding:self"
                        if body in ("ret", "ret-rw") and out[2] is not rets[m.id]["__ret"]:
                            disc = "result-not-identical"
                        if body == "raise" and out[3] is not rets[m.id]["__exc"]:
                            disc = "exception-not-identical"
                if disc:
                    case = {"space": space, "methods": mspecs, "carrier": carrier, "naming": naming, "body": body,
                            "call": {"types": list(ts), "kw": list(kws), "variant": [vkind, j], "entry": entry}}
                    if acc is not None:
                        acc.violation(case, disc, detail)
                    else:
                        found.append((disc, detail))
    return found


def shard(shard, nshards, tier, seed):
    acc = core.Acc(PROP)
    k = 0
    for space, sigset, naming, carrier, body in iter_sets(tier, shard, nshards):
        mspecs = mspecs_for(sigset, naming, carrier, body)
        acc.count("programs")
        acc.h("programs_per_space", space)
        try:
            build(mspecs, carrier)[0].compile()
        except Exception as e:  # a build-time refusal of a valid signature set
            acc.violation({"space": space, "methods": mspecs, "carrier": carrier, "naming": naming, "body": body, "call": None},
                          "build-refused", {"exc": core.short_exc(e)})
            continue
        check_set(mspecs, carrier, body, acc, space, naming, fresh=(tier != "quick" and space == "single"))
        if k % 97 == 0:
            acc.sample({"space": space, "methods": mspecs, "carrier": carrier, "naming": naming})
        k += 1
        if k % 100 == 0:
            gen.purge_globals()
    return acc


def replay(case):
    c = case["call"]
    if c is None:
        try:
            check_set(case["methods"], case["carrier"], case["body"], None, case["space"], case["naming"])
        except Exception as e:
            return [("build-refused", core.short_exc(e))]
        return []
    found = check_set(case["methods"], case["carrier"], case["body"], None, case["space"], case["naming"],
                      only_call=(tuple(c["types"]), tuple(c["kw"]), tuple(c["variant"]), c["entry"]))
    return found


def main(tier):
    t0 = time.time()
    merged = core.run_sharded(__name__, "shard", tier)
    return core.finish(
        PROP, tier, "model_checking", merged, t0,
        rule="signature sets (1-2, thorough 3 methods; 0-2 (3) positionals in every valid combination of positional-only / "
             "positional-or-keyword x required / optional; keyword-only k, j required / optional; uniform or differing "
             "names, or a differing first name with a uniformly named last positional (passed by name with a lenient oracle: it may be refused, "
             "but an accepted call must bind every value); function / bound method through the entry point / through the Ovld descriptor; plus pairs in which the first "
             "method's positionals carry a value-dependent annotation (Literal / Dependent, one that accepts the passed value and "
             "one that accepts none, so that the generated dependent dispatcher falls through to the plain method)) x every call shape "
             "(0..max+1 positionals x int/str per slot x every subset of {k, j} x positionals-by-keyword where documented) "
             "x both entry points, each on a fresh function; oracle R1-R3 + identity of every binding, default, result "
             "and exception; non-trivial = accepted call that omits an optional positional or passes a keyword",
        assumptions=["reference model R1-R3, R7", "calls whose reference outcome is a tie are skipped (C02's subject)"],
        coverage_extra={"bounds": [s[0] for s in c03_spaces(tier)]},
    )
