"""C01 -- a method only ever runs on arguments its declared signature accepts.

E1 with the in-body monitor as the only oracle (no reference resolution needed): every body
entered during any call of any program of the families below is checked against the method's
own declaration.
"""

import time

from . import c07, core, gen, spaces
from .ref import RefMethod, StaticSem

PROP = "C01"

import ovld.utils as outils  # noqa: E402


def monitor(log, methods, sem, defaults):
    """-> list of (disc, detail) for every logged body entry that violates its declaration."""
    bad = []
    for mid, argd in log:
        m = methods[mid]
        for nm, kind, opt in m.params:
            v = argd[nm]
            t = m.types.get(nm, "O")
            d = defaults.get(mid, {}).get(nm, None)
            if opt and v is d:
                continue  # the method's own default
            if v is outils.MISSING:
                bad.append(("placeholder-reached-body", {"mid": mid, "param": nm}))
            elif not sem.instance(v, t):
                bad.append(("arg-not-instance", {"mid": mid, "param": nm, "declared": t, "got": type(v).__name__}))
    return bad


def family_static(tier, shard, nshards, acc):
    k = 0
    for space, h, descs, calls in spaces.iter_programs(tier, shard, nshards):
        mspecs = spaces.mspecs_of(descs)
        prog = gen.Program(h.classes, mspecs)
        methods = {ms["id"]: RefMethod(ms, i) for i, ms in enumerate(mspecs)}
        sem = StaticSem(h.classes)
        acc.count("programs")
        acc.h("family", "static")
        for args_n, kw_n in calls:
            args = tuple(h.instances[a] for a in args_n)
            kwargs = {kk: h.instances[v] for kk, v in kw_n.items()}
            out = prog.call(args, kwargs)
            judge(acc, prog.log, methods, sem, prog.defaults, args, kwargs,
                  lambda: {"family": "static", "space": space, "hier": h.spec(), "methods": mspecs,
                           "call": {"args": list(args_n), "kwargs": dict(kw_n)}})
        if k % 499 == 0:
            acc.sample({"family": "static", "space": space, "hier": h.spec(), "methods": mspecs})
        k += 1
        if k % 500 == 0:
            gen.purge_globals()


def judge(acc, log, methods, sem, defaults, args, kwargs, mkcase):
    acc.count("evaluations")
    acc.count("bodies_entered", len(log))
    if log:
        # non-trivial: a body ran although some other registered method was not applicable
        entered = {mid for mid, _ in log}
        if len(methods) > len(entered):
            acc.count("nontrivial")
    for disc, detail in monitor(log, methods, sem, defaults):
        acc.violation(mkcase(), disc, detail)


def family_delegating(tier, shard, nshards, acc):
    """C07's programs, plus call_next(v) for *every* value v (no reference chain is needed here)."""
    k = 0
    for space, h, descs, mask, carrier, v, calls in c07.iter_cases(tier, shard, nshards):
        mspecs = c07.make_mspecs(descs, mask, carrier, v)
        real = [dict(m) for m in mspecs]
        for m in real:
            if m.get("body") == "cnv":
                m["env"] = {"__v": h.instances[m["env"]["__v"]]}
            elif m.get("body") == "cnv2":
                m["env"] = {"__v": tuple(h.instances[x] for x in m["env"]["__v"])}
        fn, log = c07.build(h, real, carrier)
        defaults = c07.build.last_defaults
        methods = {ms["id"]: RefMethod(ms, i) for i, ms in enumerate(real)}
        sem = StaticSem(h.classes)
        acc.count("programs")
        acc.h("family", "delegating:" + carrier)
        for args_n, kw_n in calls:
            args = tuple(h.instances[a] for a in args_n)
            kwargs = {kk: h.instances[x] for kk, x in kw_n.items()}
            del log[:]
            gen.run_call(fn, args, kwargs, log)
            judge(acc, log, methods, sem, defaults, args, kwargs,
                  lambda: {"family": "delegating", "space": space, "hier": h.spec(), "methods": mspecs,
                           "carrier": carrier, "call": {"args": list(args_n), "kwargs": dict(kw_n)}})
        if k % 499 == 0:
            acc.sample({"family": "delegating", "space": space, "hier": h.spec(), "methods": mspecs, "carrier": carrier})
        k += 1
        if k % 200 == 0:
            gen.purge_globals()


FAMILIES = [family_static, family_delegating]


def shard(shard, nshards, tier, seed):
    acc = core.Acc(PROP)
    for fam in FAMILIES:
        fam(tier, shard, nshards, acc)
    from . import c01_extra

    for fam in c01_extra.FAMILIES:
        fam(tier, shard, nshards, acc)
    return acc


def replay(case):
    from .c02 import _anc
    from .gen import Hierarchy

    out = []
    if case["family"] in ("static", "delegating"):
        h = Hierarchy.get([frozenset(int(b[1:]) for b in _anc(case["hier"], c)) for c in case["hier"]["classes"]])
        mspecs = case["methods"]
        real = [dict(m) for m in mspecs]
        for m in real:
            if m.get("body") == "cnv":
                m["env"] = {"__v": h.instances[m["env"]["__v"]]}
            elif m.get("body") == "cnv2":
                m["env"] = {"__v": tuple(h.instances[x] for x in m["env"]["__v"])}
        fn, log = c07.build(h, real, case.get("carrier", "plain"))
        methods = {ms["id"]: RefMethod(ms, i) for i, ms in enumerate(real)}
        args = tuple(h.instances[a] for a in case["call"]["args"])
        kwargs = {k: h.instances[v] for k, v in case["call"]["kwargs"].items()}
        gen.run_call(fn, args, kwargs, log)
        out = monitor(log, methods, StaticSem(h.classes), c07.build.last_defaults)
    else:
        from . import c01_extra

        out = c01_extra.replay(case)
    return out


def main(tier):
    t0 = time.time()
    merged = core.run_sharded(__name__, "shard", tier)
    return core.finish(
        PROP, tier, "model_checking", merged, t0,
        rule="all programs x calls of the families static (C02 spaces), delegating (C07 spaces, call_next / f.next / "
             "call_next(every other value), carriers) and the value-dependent / type-argument families (C10, C11, C14 "
             "spaces); oracle = in-body monitor: every parameter of every entered body is a reference instance of its "
             "declared type or the method's own default, never a placeholder; non-trivial = a body ran while another "
             "registered method did not",
        assumptions=["reference instance relation of vt/ref.py", "canonical set-iteration order via hook H1"],
    )
