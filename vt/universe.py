"""E4 -- finite type universes: the closure of the type constructors over a fixed hierarchy."""

import abc
import itertools
import typing

from . import annot

from ovld.types import normalize_type  # noqa: E402


class K0:
    pass


class K1(K0):
    pass


class K2(K0):
    def pm(self):
        return 1


class K3(K1, K2):
    pass


class K4:
    tag = "qa"


class A(abc.ABC):
    pass


A.register(K4)


@typing.runtime_checkable
class P(typing.Protocol):
    def pm(self): ...


@typing.runtime_checkable
class P2(typing.Protocol):
    # a structural twin of P: two distinct classes that are subclasses of each other
    def pm(self): ...


CLASSES = {"K0": K0, "K1": K1, "K2": K2, "K3": K3, "K4": K4, "A": A, "P": P, "P2": P2, "int": int, "str": str, "O": object}
PLAIN = ["K0", "K1", "K2", "K3", "K4", "A", "P", "P2", "int", "str", "O"]
# closed world of concrete classes used for denotations (C13)
WORLD = ["K0", "K1", "K2", "K3", "K4", "int", "str", "bool", "O"]
WORLD_CLASSES = {"K0": K0, "K1": K1, "K2": K2, "K3": K3, "K4": K4, "int": int, "str": str, "bool": bool, "O": object}

SMALL = ["K0", "K1", "K3", "K4", "int"]


def level(base, small, tier_deps=True):
    """Apply every constructor once to the given bases."""
    out = []
    for b in base:
        out.append(["gen", "list", b])
        out.append(["gen", "Iterable", b])
        out.append(["type", b])
        out.append(["exactly", b])
        out.append(["strict", b])
    for b in small:
        for c in ("K0", "int"):
            out.append(["gen", "dict", b, c])
            out.append(["tuple", b, c])
        out.append(["tuple", b])
        out.append(["dep", b, "qa"])
        out.append(["dep", b, "qb"])
    for b, c in itertools.permutations(small, 2):
        out.append(["union", b, c])
        out.append(["inter", b, c])
    out += [["hasmethod", "pm"], ["hasmethod", "nope"], ["lit", 0], ["lit", 0, 1], ["lit", "a"], ["lit", 1, 0], ["tuple"]]
    # a repeated member (what normalisation yields for Union[type, type[object], int]), against a combination of the
    # same length that strictly contains its members
    out += [["ounion", "K0", "K0", "K4"], ["ounion", "K0", "K4", "int"], ["ounion", "K4", "K0", "K0"], ["inter", "K0", "K0", "K4"],
            ["inter", "K0", "K4", "P"], ["inter", "K4", "K0", "K0"], ["ounion", "K0", "K4"], ["inter", "K0", "K4"]]
    # the typing spelling of generics that are also in the universe in their builtin spelling
    for b in ("K0", "K1", "int"):
        out += [["tgen", "list", b], ["tgen", "type", b], ["tgen", "Iterable", b], ["tgen", "dict", b, "K0"], ["gen", "list", ["tgen", "list", b]]]
    # redundant nesting: a combination that has another combination as a direct member and whose other members add nothing
    out += [["ounion", ["ounion", "K0", "K4"], "K1"], ["ounion", "K1", ["ounion", "K0", "K4"]], ["ounion", ["ounion", "K0", "int"], "K3"],
            ["inter", ["inter", "K0", "K4"], "O"], ["inter", "O", ["inter", "K0", "K4"]], ["inter", ["inter", "K1", "K4"], "K0"],
            ["ounion", "K0", "int"], ["inter", "K1", "K4"]]
    # absorbing combinations: one constructed member covers the other
    for a, b in (("K0", "K1"), ("K1", "K3"), ("O", "K4")):
        for mk in (lambda x: ["type", x], lambda x: ["gen", "list", x], lambda x: ["tuple", x], lambda x: ["dep", x, "qa"]):
            out.append(["union", mk(a), mk(b)])
            out.append(["union", mk(b), mk(a)])
            out.append(["inter", mk(a), mk(b)])
    return out


def _isstr(s):
    return isinstance(s, str)


def universe(depth):
    """-> list of (label, spec, type object) ; raw annotation and, where different, its normal form."""
    specs = list(PLAIN)
    l1 = level(PLAIN, SMALL)
    specs += l1
    if depth >= 2:
        # depth 2: constructors over a selection of depth-1 types
        sel = [s for s in l1 if s[0] in ("gen", "type", "union", "inter", "exactly", "dep", "tuple", "lit")]
        sel = [s for s in sel if all(_isstr(x) and x in ("K0", "K1", "K4", "int", "list", "dict", "Iterable", "qa") or not _isstr(x) for x in s[1:])]
        for s in sel:
            specs.append(["gen", "list", s])
            specs.append(["type", s]) if s[0] == "gen" else None
            specs.append(["tuple", s, "int"])
            specs.append(["union", s, "str"])
            specs.append(["union", "str", s])
            specs.append(["inter", s, "K4"]) if s[0] not in ("lit",) else None
            if s[0] in ("union", "inter", "exactly"):
                specs.append(["dep", s, "qa"])
    out = []
    seen = set()
    for s in specs:
        key = annot.canon(s)
        if key in seen:
            continue
        seen.add(key)
        try:
            # built afresh (not through the annotation cache): a type that is a member of another one
            # is then an equal but distinct object, as it is when users write the annotation twice
            # (Dependent[...] creates a new, unequal type at every evaluation: those go through the cache)
            # (so do Exactly / StrictSubclass / HasMethod, whose equality is identity of the handler)
            ident = any(f'"{k}"' in key for k in ("dep", "exactly", "strict", "hasmethod"))
            raw = annot.annotate(s, CLASSES) if ident else annot._annotate(s, CLASSES)
        except Exception as e:  # noqa
            out.append(("bad:" + key, s, e))
            continue
        try:
            n = normalize_type(raw, None)
        except Exception as e:  # noqa  ("ovld does not understand generic type ...")
            out.append(("bad:" + key, s, e))
            continue
        same = n is raw or (type(n) is type(raw) and n == raw)
        # typing.Union / Literal / tuple[...] / nested uses of them are annotations, not types:
        # they only ever reach the order in normal form
        if isinstance(s, str) or same or (s[0] in ("gen", "type", "tgen") and all(isinstance(x, str) for x in s[1:])):
            out.append(("raw:" + key, s, raw))
        if not same:
            out.append(("norm:" + key, s, n))
    return out
