"""Enumerated program spaces over static class hierarchies (shared by C01, C02, C06, C07...).

A *descriptor* is (shape key, types per typed parameter, priority).  A program is a multiset
of descriptors in canonical order: registration order matters only between identical
signatures (twins are adjacent, the later id being the later registration); permutations of
distinct signatures are C06's subject.
"""

import itertools

from .gen import SHAPES, FlavouredHierarchy, Hierarchy, parse_shape, posets

TYPED = {k: [p[0] for p in parse_shape(v) if p[1] != "S"] for k, v in SHAPES.items()}


def descriptors(type_names, shapes, prios):
    out = []
    for sh in shapes:
        names = TYPED[sh]
        for types in itertools.product(type_names, repeat=len(names)):
            if len([p for p in parse_shape(SHAPES[sh]) if p[1] == "K"]) >= 2 and types[0] != type_names[0]:
                continue  # two-keyword shapes: the positional parameter is not what varies
            for pr in prios:
                out.append((sh, types, pr))
    return out


def mspecs_of(descs, body=None):
    ms = []
    for i, (sh, types, pr) in enumerate(descs):
        m = {"id": i, "shape": SHAPES[sh], "types": dict(zip(TYPED[sh], types)), "prio": pr}
        if body:
            m["body"] = body[i] if isinstance(body, (list, tuple)) else body
        ms.append(m)
    return ms


def multisets(descs, lo, hi, distinct=False):
    comb = itertools.combinations if distinct else itertools.combinations_with_replacement
    for L in range(lo, hi + 1):
        yield from comb(descs, L)


def calls_for(type_names, shapes, value_names=None):
    """Every call shape some method of these shapes could accept, with every class tuple."""
    type_names = value_names or type_names
    arities = set()
    kws = set()
    for sh in shapes:
        ps = parse_shape(SHAPES[sh])
        pos = [p for p in ps if p[1] in "PN"]
        req = sum(1 for p in pos if not p[2])
        for a in range(req, len(pos) + 1):
            arities.add(a)
        for p in ps:
            if p[1] == "K":
                kws.add(p[0])
    out = []
    for a in sorted(arities):
        for args in itertools.product(type_names, repeat=a):
            out.append((args, {}))
            for k in sorted(kws):
                for kv in type_names:
                    out.append((args, {k: kv}))
            # two keywords at once, passed in both orders (the order of a call's keywords must not matter)
            for k1, k2 in itertools.permutations(sorted(kws), 2):
                for v1, v2 in itertools.product(type_names, repeat=2):
                    out.append((args, {k1: v1, k2: v2}))
    return out


def static_spaces(tier):
    """-> list of (space name, [hierarchies], descriptor-set fn, lo, hi, distinct, shapes)"""
    sp = []
    H = lambda lo, hi: [Hierarchy.get(a) for n in range(lo, hi + 1) for a in posets(n)]  # noqa
    FL = [FlavouredHierarchy.get(f) for f in ("abc", "proto", "both", "twins", "abc-sub")]
    sp.append(("f1:flavoured(ABC+virtual subclass, protocol, twin protocols),1pos,L<=3,prio", FL, ["x"], (0, 1), 1, 3, False))
    sp.append(("f2:flavoured,2pos,L<=2", FL, ["xy"], (0,), 1, 2, False))
    if tier == "quick":
        sp.append(("a:1pos,n<=4,L<=3,prio", H(0, 4), ["x"], (0, 1), 1, 3, False))
        sp.append(("b:2pos,n<=3,L<=3,prio", H(0, 3), ["xy"], (0, 1), 1, 3, False))
        sp.append(("c:2pos,n=4,L=3,distinct", H(4, 4), ["xy"], (0,), 3, 3, True))
        sp.append(("d:shapes,n<=2,L<=2", H(0, 2), ["x", "xy", "xy?", "x*k", "x*k?"], (0,), 1, 2, False))
        sp.append(("d3:shapes,n<=1,L=3", H(0, 1), ["x", "xy", "xy?", "x*k", "x*k?"], (0,), 3, 3, False))
        sp.append(("z:all-optional shapes (zero-argument calls),n<=2,L<=3,prio", H(0, 2), ["x?", "x?y?", "x"], (0, 1), 1, 3, False))
        sp.append(("dk:mixed arity with a keyword-only parameter on the longer method,n<=2,L<=2", H(0, 2), ["x", "x*k", "xy*k"], (0, 1), 1, 2, False))
        sp.append(("k2:two typed keyword-only parameters in either declaration order / one optional,n<=2,L=2", H(1, 2), ["x*kj", "x*jk", "x*j?k", "x*kj?"], (0,), 2, 2, False))
    else:
        sp.append(("A:1pos,n<=5,L<=4,prio", H(0, 5), ["x"], (0, 1), 1, 4, False))
        sp.append(("B:2pos,n<=3,L<=3,prio", H(0, 3), ["xy"], (0, 1), 1, 3, False))
        sp.append(("C:2pos,n=4,L<=3,prio", H(4, 4), ["xy"], (0, 1), 1, 3, False))
        sp.append(("D:shapes,n<=2,L<=3", H(0, 2), ["x", "xy", "xy?", "x*k", "x*k?"], (0,), 1, 3, False))
        sp.append(("Z:all-optional shapes (zero-argument calls),n<=3,L<=3,prio", H(0, 3), ["x?", "x?y?", "x", "x*k?"], (0, 1), 1, 3, False))
        sp.append(("K2:two typed keyword-only parameters in either declaration order / one optional,n<=2,L<=3", H(1, 2), ["x*kj", "x*jk", "x*j?k", "x*kj?"], (0, 1), 2, 3, False))
        sp.append(("E:3pos+kw,n<=2,L<=2", H(0, 2), ["xyz", "xy*k", "xy"], (0, 1), 1, 2, False))
        sp.append(("E3:3pos+kw,n<=1,L=3", H(0, 1), ["xyz", "xy*k", "xy"], (0,), 3, 3, False))
        sp.append(("F:3pos,n=3,L<=2", H(3, 3), ["xyz"], (0, 1), 1, 2, False))
    return sp


def iter_programs(tier, shard, nshards):
    """Yield (space, hier, descs (tuple), calls) for this shard; strided deterministic sharding."""
    idx = 0
    for name, hiers, shapes, prios, lo, hi, distinct in static_spaces(tier):
        for h in hiers:
            ds = descriptors(h.type_names, shapes, prios)
            calls = None
            for prog in multisets(ds, lo, hi, distinct):
                if idx % nshards == shard:
                    if calls is None:
                        calls = calls_for(h.type_names, shapes, getattr(h, "value_names", None))
                    yield name, h, prog, calls
                idx += 1


def space_size(tier):
    from math import comb

    total = 0
    per = {}
    for name, hiers, shapes, prios, lo, hi, distinct in static_spaces(tier):
        s = 0
        for h in hiers:
            d = len(descriptors(h.type_names, shapes, prios))
            for L in range(lo, hi + 1):
                s += comb(d, L) if distinct else comb(d + L - 1, L)
        per[name] = s
        total += s
    return total, per
