"""E6 -- stateless schedule exploration of real threads (baton passing at library source lines).

Each thread runs only while it holds the baton; every ``line`` event in a *visible* library
frame is a scheduling point at which the explorer's choice list decides who continues.
Iterative context bounding (CHESS): a switch away from a thread that could have continued is
a preemption; switches at thread end or when the running thread blocks on a lock are free.
"""

import os
import sys
import threading

from . import env
from .core import HarnessError

LIBDIR = os.path.join(os.path.abspath(env.SRC), "ovld") + os.sep


def _boot_code():
    # the bootstrap entry point is first_entry's code under the function's own name (rename_code keeps the bytecode)
    import ovld.core as oc

    for c in oc.bootstrap_dispatch.__code__.co_consts:
        if hasattr(c, "co_code") and c.co_name == "first_entry":
            return c.co_code
    return None


BOOT_CO_CODE = _boot_code()


def build_gate():
    """Locations *before* a thread holds the build lock: the bootstrap entry point, ensure_compiled, and the
    prologue of Ovld.compile up to its 'with self._lock'.  A thread preempted there has already decided to build."""
    import inspect

    import ovld.core as oc

    lines, start = inspect.getsourcelines(oc.Ovld.compile)
    lock_line = next((start + i for i, l in enumerate(lines) if "with self._lock" in l), start)

    def gate(loc):
        f, fn, ln = loc
        if f != "core.py":
            return False
        return fn in ("first_entry", "ensure_compiled") or (fn == "compile" and start <= ln <= lock_line)

    return gate


def default_visible(code):
    fn = code.co_filename
    if fn.startswith("<ovld:"):
        return True
    if not fn.startswith(LIBDIR):
        return False
    base = fn[len(LIBDIR):]
    if base in ("core.py", "typemap.py"):
        return True
    if base == "mro.py":
        return code.co_name == "sort_types"
    if base == "recode.py":
        return code.co_name in ("recode", "instantiate_code", "adapt_function")
    return False


def all_visible(code):
    fn = code.co_filename
    return fn.startswith("<ovld:") or fn.startswith(LIBDIR)


class CoopLock:
    """A re-entrant lock whose acquire is a scheduling point with an enabledness condition
    (a real lock held by a parked thread would hang the baton protocol)."""

    current_exec = None

    def __init__(self):
        self.owner = None
        self.depth = 0

    def acquire(self, blocking=True, timeout=-1):
        ex = CoopLock.current_exec
        me = threading.get_ident()
        if ex is None or me not in ex.tid_of:
            # outside an exploration (sequential reference runs): behave like a free lock
            if self.owner in (None, me):
                self.owner = me
                self.depth += 1
                return True
            raise HarnessError("CoopLock contended outside an exploration")
        tid = ex.tid_of[me]
        while self.owner not in (None, me):
            ex.block(tid, self)
        self.owner = me
        self.depth += 1
        return True

    def release(self):
        self.depth -= 1
        if self.depth == 0:
            self.owner = None
            ex = CoopLock.current_exec
            if ex is not None:
                ex.unblock(self)

    __enter__ = acquire

    def __exit__(self, *a):
        self.release()


class Execution:
    def __init__(self, bodies, choices, visible=default_visible, horizon=30000):
        self.bodies = bodies
        self.n = len(bodies)
        self.choices = list(choices)
        self.visible = visible
        self.horizon = horizon
        self.sems = [threading.Semaphore(0) for _ in range(self.n)]
        self.main = threading.Semaphore(0)
        self.finished = [False] * self.n
        self.blocked = [None] * self.n
        self.points = []  # (number of options, chosen index, was a preemption possible, location)
        self.npoints = 0
        self.results = [None] * self.n
        self.tid_of = {}
        self.deadlock = False
        self.capped = False
        self.preemptions = 0

    # -- scheduling ----------------------------------------------------------------------
    def _options(self, running):
        opts = []
        if running is not None and not self.finished[running] and self.blocked[running] is None:
            opts.append(running)
        for t in range(self.n):
            if t != running and not self.finished[t] and self.blocked[t] is None:
                opts.append(t)
        return opts

    def _choose(self, running, loc):
        opts = self._options(running)
        if not opts:
            return None
        if len(opts) == 1:
            return opts[0]
        i = len(self.points)
        if self.capped:
            c = 0
        else:
            c = self.choices[i] if i < len(self.choices) else 0
        if c >= len(opts):
            raise HarnessError(f"choice {c} out of range at point {i} ({len(opts)} options)")
        can_preempt = running is not None and opts[0] == running
        self.points.append((len(opts), c, can_preempt, loc))
        if can_preempt and c != 0:
            self.preemptions += 1
        return opts[c]

    def _switch(self, tid, nxt):
        if nxt is None:
            self.deadlock = True
            self.main.release()
            self.sems[tid].acquire()  # parked forever (daemon thread)
            return
        if nxt != tid:
            self.sems[nxt].release()
            self.sems[tid].acquire()

    def point(self, tid, frame):
        self.npoints += 1
        if self.npoints > self.horizon:
            self.capped = True
        loc = (os.path.basename(frame.f_code.co_filename) if not frame.f_code.co_filename.startswith("<ovld:") else "<ovld>",
               "first_entry" if frame.f_code.co_code == BOOT_CO_CODE else frame.f_code.co_name, frame.f_lineno)
        self._switch(tid, self._choose(tid, loc))

    def block(self, tid, lock):
        self.blocked[tid] = lock
        nxt = self._choose(tid, ("lock", "acquire", 0))
        self._switch(tid, nxt)

    def unblock(self, lock):
        for t in range(self.n):
            if self.blocked[t] is lock:
                self.blocked[t] = None

    # -- threads -------------------------------------------------------------------------
    def _thread(self, tid):
        self.tid_of[threading.get_ident()] = tid
        self.sems[tid].acquire()

        def local(frame, event, arg):
            if event == "line":
                self.point(tid, frame)
            return local

        def glob(frame, event, arg):
            return local if self.visible(frame.f_code) else None

        sys.settrace(glob)
        try:
            try:
                self.results[tid] = ("ok", self.bodies[tid]())
            except BaseException as e:  # noqa
                self.results[tid] = ("exc", e)
        finally:
            sys.settrace(None)
        self.finished[tid] = True
        nxt = self._choose(None, ("thread-end", str(tid), 0))
        if nxt is None:
            if any(not f for f in self.finished):
                self.deadlock = True
            self.main.release()
        else:
            self.sems[nxt].release()

    def run(self):
        CoopLock.current_exec = self
        threads = [threading.Thread(target=self._thread, args=(i,), daemon=True) for i in range(self.n)]
        for t in threads:
            t.start()
        first = self._choose(None, ("start", "", 0))
        self.sems[first].release()
        self.main.acquire()
        if not self.deadlock:
            for t in threads:
                t.join(10)
        CoopLock.current_exec = None
        return self


def explore(make_bodies, check, bound, shard=0, nshards=1, visible=default_visible, stats=None, max_schedules=None,
            gate=None, gate_extra=0):
    """make_bodies() -> (bodies, context) builds fresh shared objects for one execution;
    check(execution, context) judges one complete execution.
    Schedules are sharded by the index of their first deviation.
    With ``gate`` (a predicate on locations): up to ``bound + gate_extra`` preemptions, of which at most ``bound``
    lie outside the gate."""
    stats = stats if stats is not None else {}
    stats.setdefault("schedules", 0)
    stats.setdefault("max_points", 0)
    stats.setdefault("capped", 0)

    def run(prefix, expect=None, shared=False):
        bodies, ctx = make_bodies()
        ex = Execution(bodies, prefix, visible)
        ex.shared_run = shared  # this execution is run by every shard (to be judged by one of them only)
        ex.run()
        stats["schedules"] += 1
        stats["max_points"] = max(stats["max_points"], len(ex.points))
        stats["capped"] += ex.capped
        if expect is not None:
            got = [(p[0], p[3]) for p in ex.points[: len(prefix)]]
            want = [(p[0], p[3]) for p in expect[: len(prefix)]]
            if got != want:
                raise HarnessError(f"divergence while replaying schedule prefix of length {len(prefix)}")
        check(ex, ctx, tuple(p[1] for p in ex.points))
        return ex

    def go(prefix, parent_points, ndev_budget, top):
        ex = run(prefix, parent_points, shared=top)
        cost_before = 0
        outside_before = 0
        for i, p in enumerate(ex.points):
            if i < len(prefix):
                if p[2] and p[1] != 0:
                    cost_before += 1
                    if gate is None or not gate(p[3]):
                        outside_before += 1
                continue
            cost = cost_before + (1 if p[2] else 0)
            outside = outside_before + (1 if p[2] and (gate is None or not gate(p[3])) else 0)
            if cost <= bound + (gate_extra if gate is not None else 0) and outside <= bound:
                free = not p[2] or (gate is not None and gate(p[3]))
                # executions without any preemption (or with preemptions at gate locations only) are run by
                # every shard (cheap); the tree below them is split by the index of the first other preemption
                if not top or free or i % nshards == shard:
                    base = [q[1] for q in ex.points[:i]]
                    for alt in range(1, p[0]):
                        if max_schedules and stats["schedules"] >= max_schedules:
                            stats["truncated"] = True
                            return
                        go(tuple(base + [alt]), ex.points, None, top and free)
            # choices after the prefix are all 0 in this execution: no further cost accrues

    go((), None, None, True)
    return stats
