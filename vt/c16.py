"""C16 -- variants and mixins compose without ever disturbing their parents (E2 vs R6 + differential)."""

import time

from . import core, e2, gen

PROP = "C16"

from ovld import Ovld  # noqa: E402

CLASSES = {"int": int, "str": str, "O": object}
POOL = [
    {"id": 0, "shape": gen.SHAPES["x"], "types": {"x": "int"}, "prio": 0},
    {"id": 1, "shape": gen.SHAPES["x"], "types": {"x": "int"}, "prio": 0},  # identical signature
    {"id": 2, "shape": gen.SHAPES["x"], "types": {"x": "str"}, "prio": 0},
]
SIGMA = [7, "s"]
SIGKEY = {0: "int", 1: "int", 2: "str"}


def norm(out):
    return (out[0], out[1], repr(out[2]))


class World:
    """Real objects for one history."""

    def __init__(self):
        self.nodes = []
        self.log = []
        self.fref = [None]
        self.fns = {}  # (node, mid) -> function (one function object per node and method)

    def fn(self, n, m):
        key = (n, m)
        if key not in self.fns:
            self.fns[key], _ = gen.make_method(POOL[m], CLASSES, self.log, self.fref, lambda t, c: c[t])
        return self.fns[key]

    def call(self, n, c):
        del self.log[:]
        ov = self.nodes[n]
        return norm(gen.run_call(getattr(ov, "dispatch", ov), (SIGMA[c],), {}, self.log))


class RefGraph:
    """R6 + the lock rule, computed from the history alone."""

    def __init__(self):
        self.parents = []  # per node: list of parent ids (order matters)
        self.linkback = []  # per node: bool (all its parent edges)
        self.own = []  # per node: list of mids in registration order (later wins per signature)
        self.used = []

    def add(self, parents, lb):
        self.parents.append(list(parents))
        self.linkback.append(lb)
        self.own.append([])
        self.used.append(False)
        return len(self.parents) - 1

    def effective(self, n):
        eff = []
        for p in self.parents[n]:
            layer = self.effective(p)
            sigs = {SIGKEY[m] for m in layer}
            eff = [m for m in eff if SIGKEY[m] not in sigs] + layer
        sigs = {SIGKEY[m] for m in self.own[n]}
        eff = [m for m in eff if SIGKEY[m] not in sigs] + list(self.own[n])
        return eff

    def descendants(self, a):
        out = set()
        todo = [a]
        while todo:
            x = todo.pop()
            for d in range(len(self.parents)):
                if x in self.parents[d] and d not in out:
                    out.add(d)
                    todo.append(d)
        return out

    def linked(self, a, d):
        """Is there a path a -> ... -> d along which every edge was created with linkback?"""
        if a == d:
            return True
        if not self.linkback[d]:
            return False
        return any(self.linked(a, p) for p in self.parents[d] if p == a or a in self.ancestors(p))

    def ancestors(self, n):
        out = set()
        todo = list(self.parents[n])
        while todo:
            x = todo.pop()
            if x not in out:
                out.add(x)
                todo.extend(self.parents[x])
        return out

    def must_refuse(self, a):
        return any(self.used[d] and not self.linked(a, d) for d in self.descendants(a))


class GraphModel(e2.Model):
    def __init__(self, max_nodes, prefix=()):
        self.max_nodes = max_nodes
        self.prefix = prefix
        self.fresh_cache = {}

    def initial(self):
        return [self.prefix]

    def ref_of(self, hist, world=None):
        g = RefGraph()
        for i, op in enumerate(hist):
            self.ref_step(g, op)
        return g

    def ref_step(self, g, op, accepted=True):
        k = op[0]
        if k == "new":
            g.add([], False)
        elif k == "copy":
            g.add([op[1]], op[2])
        elif k == "mix":
            g.add([op[1], op[2]], op[3])
        elif k == "call":
            g.used[op[1]] = True
        elif not g.must_refuse(op[1]):
            if k == "reg":
                if op[2] in g.own[op[1]]:
                    g.own[op[1]].remove(op[2])
                g.own[op[1]].append(op[2])
            elif k == "unreg":
                if op[2] in g.own[op[1]]:
                    g.own[op[1]].remove(op[2])
            elif k == "addmix":
                g.parents[op[1]].append(op[2])

    def ops(self, hist):
        g = self.ref_of(hist)
        n = len(g.parents)
        if n < self.max_nodes:
            yield ("new",)
            for p in range(n):
                for lb in (False, True):
                    yield ("copy", p, lb)
            for p in range(n):
                for q in range(n):
                    if p != q and not self.related(g, p, q):
                        for lb in (False, True):
                            yield ("mix", p, q, lb)
        for a in range(n):
            for p in range(n):
                if (p != a and p not in g.parents[a] and a not in g.ancestors(p)
                        and not any(self.related(g, p, q) for q in g.parents[a])
                        and not any(p in g.ancestors(d) or d in g.ancestors(p) or d == p
                                    for d in g.descendants(a))):
                    yield ("addmix", a, p)
            for m in range(len(POOL)):
                if m in g.own[a]:
                    yield ("unreg", a, m)
                else:
                    yield ("reg", a, m)
            for c in range(len(SIGMA)):
                yield ("call", a, c)

    @staticmethod
    def related(g, p, q):
        """Combining a function with one of its own ancestors (two derivation paths of possibly
        different linkage between one pair of functions) is left out: the statement is silent on it."""
        return p in g.ancestors(q) or q in g.ancestors(p) or bool(g.ancestors(p) & g.ancestors(q))

    def do(self, w, op):
        k = op[0]
        if k == "new":
            w.nodes.append(Ovld())
        elif k == "copy":
            w.nodes.append(w.nodes[op[1]].copy(linkback=op[2]))
        elif k == "mix":
            w.nodes.append(Ovld(mixins=[w.nodes[op[1]], w.nodes[op[2]]], linkback=op[3]))
        elif k == "addmix":
            w.nodes[op[1]].add_mixins(w.nodes[op[2]])
        elif k == "reg":
            w.nodes[op[1]].register(w.fn(op[1], op[2]))
        elif k == "unreg":
            w.nodes[op[1]].unregister(w.fn(op[1], op[2]))
        elif k == "call":
            return w.call(op[1], op[2])
        return ("ok",)

    def build(self, hist):
        w = World()
        for op in hist:
            try:
                self.do(w, op)
            except Exception:  # refused modification: state unchanged
                pass
        return w

    def apply(self, w, op):
        try:
            return self.do(w, op)
        except Exception as e:  # noqa
            return ("raised", type(e).__name__ + (":locked" if "locked for modif" in str(e) else ""))

    def canon(self, w, hist):
        g = self.ref_of(hist)
        try:
            lib = tuple((bool(o._compiled), bool(o._locked),
                         tuple(sorted((s.tiebreak, gen.handler_key(f)[1]) for s, f in o._defns.items()))) for o in w.nodes)
        except AttributeError:
            return hist
        return (tuple(map(tuple, g.parents)), tuple(g.linkback), lib)

    def expected_call(self, eff, c):
        key = (tuple(eff), c)
        if key not in self.fresh_cache:
            w = World()
            ov = Ovld()
            w.nodes.append(ov)
            for m in eff:
                ov.register(w.fn(0, m))
            self.fresh_cache[key] = w.call(0, c)
        return self.fresh_cache[key]

    def check(self, hist, op, out, w):
        g = self.ref_of(hist)
        k = op[0]
        if k in ("reg", "unreg", "addmix"):
            refuse = g.must_refuse(op[1])
            if refuse and out == ("ok",):
                yield ("modification-accepted-but-descendant-in-use", {"node": op[1]})
            if not refuse and out != ("ok",):
                yield ("modification-refused-without-reason", {"node": op[1], "out": out})
        # every node must equal a fresh build of its effective method set (probed on a replayed copy)
        g2 = self.ref_of(hist + (op,))
        pw = self.build(hist + (op,))
        for n in range(len(pw.nodes)):
            eff = g2.effective(n)
            for c in range(len(SIGMA)):
                got = pw.call(n, c)
                exp = self.expected_call(eff, c)
                if (got[0], got[1]) != (exp[0], exp[1]) and not (got[0] in ("nomethod", "sigerror") and exp[0] in ("nomethod", "sigerror")):
                    yield (f"node-differs-from-effective-set:{exp[0]}->{got[0]}",
                           {"node": n, "call": SIGMA[c], "effective": eff, "expected": list(exp[:2]), "got": list(got[:2])})


def prefixes(model, length):
    """All histories of the given length (the shards)."""
    out = [()]
    for _ in range(length):
        nxt = []
        for h in out:
            for op in model.ops(h):
                nxt.append(h + (op,))
        out = nxt
    return out


def config(tier):
    return {"max_nodes": 3, "depth": 5, "plen": 3} if tier == "quick" else {"max_nodes": 3, "depth": 6, "plen": 4}


def shard(shard, nshards, tier, seed):
    acc = core.Acc(PROP)
    cfg = config(tier)
    base = GraphModel(cfg["max_nodes"])
    pref = prefixes(base, cfg["plen"])
    # prefixes starting with ("new",) only (the first op is forced)
    for i, p in enumerate(pref):
        if i % nshards != shard:
            continue
        model = GraphModel(cfg["max_nodes"], prefix=p)

        def on_violation(hist, op, disc, detail, _p=p):
            acc.violation({"history": [list(o) for o in hist], "op": list(op)}, disc, detail)

        # the prefix itself must satisfy the oracle too: check its last transition
        if p:
            w = model.build(p[:-1])
            out = model.apply(w, p[-1])
            for disc, detail in model.check(p[:-1], p[-1], out, w):
                on_violation(p[:-1], p[-1], disc, detail)
            acc.count("transitions")
            acc.count("evaluations")
        st = e2.bfs(model, cfg["depth"] - len(p), acc, on_violation=on_violation, merge_every=8)
        acc.count("nontrivial", st["states"])
        acc.count("programs")
        if i % 97 == 0:
            acc.sample({"prefix": [list(o) for o in p], "states": st["states"], "transitions": st["transitions"]})
        gen.purge_globals()
    return acc


def replay(case):
    model = GraphModel(3)
    hist = tuple(tuple(o) for o in case["history"])
    op = tuple(case["op"])
    w = model.build(hist)
    out = model.apply(w, op)
    return list(model.check(hist, op, out, w))


def main(tier):
    t0 = time.time()
    cfg = config(tier)
    merged = core.run_sharded(__name__, "shard", tier, nshards=64)
    return core.finish(
        PROP, tier, "model_checking", merged, t0,
        rule=f"explicit-state BFS over create / copy / mixin-combination / add_mixins / register / unregister / call histories on a "
             f"graph of <= {cfg['max_nodes']} real functions (with and without linkback), pool of 3 methods (int, a second int of "
             f"identical signature, str), depth {cfg['depth']}; sharded by all prefixes of length {cfg['plen']}; after every transition "
             "every node is probed (on a replayed copy) with every corpus value and must equal a fresh function built from its R6 "
             "effective method list; a modification must be refused iff a used descendant has no all-linkback path to the modified node",
        assumptions=["states are merged on (derivation edges, linkback flags, per-node method tables with push-down ranks, built and "
                     "locked flags); cache contents are left out -- sound modulo C04/C05, which are decided separately",
                     "reference model R6 and the lock rule of vt/c16.py"],
        states_key="states", transitions_key="transitions",
    )
