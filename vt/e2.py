"""E2 -- explicit-state breadth-first search over operation histories on the real objects.

A state is reached by replaying a history on fresh real objects (live library objects do not
copy).  States are deduplicated on a canonical snapshot of what later operations can read
(the model's ``canon``); the soundness of that abstraction is itself tested: a state that is
reached a second time through another history is expanded once more and its outcomes are
compared with those of the first expansion -- a difference is a harness error, not a verdict.
"""

import zlib
from collections import deque

from .core import HarnessError


class Model:
    """Interface a property module implements for one program."""

    def initial(self):  # -> list of histories (tuples of ops) to start from
        return [()]

    def ops(self, hist):  # -> iterable of ops enabled after hist
        raise NotImplementedError

    def build(self, hist):  # -> fresh real object(s) with the history replayed
        raise NotImplementedError

    def apply(self, obj, op):  # -> normalised, hashable outcome of ONE real transition
        raise NotImplementedError

    def canon(self, obj, hist):  # -> hashable canonical state
        return hist

    def check(self, hist, op, out, obj):  # -> iterable of (disc, detail)
        return ()


def bfs(model, depth, acc, max_states=None, on_violation=None, merge_every=1):
    """Explore; returns dict(states, transitions, max_depth, capped)."""
    seen = {}  # key -> {op: outcome} recorded at first expansion (None until expanded)
    dup_checked = set()
    frontier = deque()
    stats = {"states": 0, "transitions": 0, "max_depth": 0, "capped": False, "merge_checks": 0, "merge_mismatches": []}
    for h in model.initial():
        obj = model.build(h)
        k = model.canon(obj, h)
        if k not in seen:
            seen[k] = None
            frontier.append((h, k, False, 0))
    while frontier:
        hist, key, dup, d = frontier.popleft()
        if dup and seen[key] is None:
            continue  # the first copy was never expanded (depth bound)
        if not dup:
            stats["states"] += 1
            stats["max_depth"] = max(stats["max_depth"], d)
            if max_states and stats["states"] > max_states:
                stats["capped"] = True
                break
            outs = {}
        for op in model.ops(hist):
            obj = model.build(hist)
            out = model.apply(obj, op)
            stats["transitions"] += 1
            if stats["transitions"] % 400 == 0:
                # rewritten methods leave ___MAP<n>__ / ___CODE<n>__ names (holding whole tables) in their module globals
                from . import gen as _gen

                _gen.purge_globals()
            for disc, detail in model.check(hist, op, out, obj):
                on_violation(hist, op, disc, detail)
            if dup:
                stats["merge_checks"] += 1
                if seen[key].get(op, out) != out:
                    # two histories with the same canonical state disagree: either the abstraction is
                    # unsound, or the library itself is history dependent (then the model's own oracle
                    # has reported one of the two outcomes); the caller decides which
                    stats["merge_mismatches"].append(
                        f"op {op!r} gives {out!r} after {hist!r} but {seen[key][op]!r} in the state first reached otherwise")
                continue
            outs[op] = out
            h2 = hist + (op,)
            k2 = model.canon(obj, h2)
            if k2 not in seen:
                seen[k2] = None
                if d + 1 <= depth:
                    frontier.append((h2, k2, False, d + 1))
            elif k2 != key and k2 not in dup_checked and d + 1 <= depth:
                dup_checked.add(k2)
                if merge_every <= 1 or zlib.crc32(repr(k2).encode()) % merge_every == 0:
                    frontier.append((h2, k2, True, d + 1))
        if not dup:
            seen[key] = outs
    if acc is not None:
        acc.count("states", stats["states"])
        acc.count("transitions", stats["transitions"])
        acc.count("merge_checks", stats["merge_checks"])
        acc.count("evaluations", stats["transitions"])
        if stats["capped"]:
            acc.count("capped_programs")
        if stats["merge_mismatches"]:
            acc.count("merge_mismatches", len(stats["merge_mismatches"]))
            acc.extra.setdefault("merge_mismatch_examples", []).append(stats["merge_mismatches"][0][:400])
    return stats


# ----------------------------------------------------------------------------------------
# canonical snapshot of an Ovld (reads the library's own tables; falls back to None)


def _tname(t):
    from .gen import type_key

    if isinstance(t, tuple) and len(t) == 2 and isinstance(t[0], str):
        return (t[0], type_key(t[1]))
    return type_key(t)


def snapshot_ovld(ov):
    """Id-free snapshot of everything a later call on ``ov`` can read, or None when the
    internals it relies on are missing (the caller then falls back to the history)."""
    from .gen import handler_key

    try:
        defns = tuple(
            (tuple(_tname(t) for t in sig.types), sig.req_pos, sig.max_pos, tuple(sorted(sig.req_names)),
             sig.priority, sig.tiebreak, handler_key(fn)[1:])
            for sig, fn in ov._defns.items()
        )
        d = getattr(ov, "dispatch", None)
        entry = None
        if d is not None:
            co = d.__code__
            entry = (co.co_argcount, co.co_posonlyargcount, co.co_kwonlyargcount, co.co_varnames[: co.co_argcount + co.co_kwonlyargcount],
                     repr(d.__defaults__), repr(sorted((d.__kwdefaults__ or {}).items())))
        flags = (bool(ov._compiled), bool(ov._locked), entry)
        if not ov._compiled:
            return ("unbuilt", defns, flags)
        m = ov.map
        code2mid = {}
        for h in m.type_tuples:
            code2mid[h.__code__] = handler_key(h)[1:]

        def kname(k):
            out = []
            for x in k:
                if hasattr(x, "co_code"):
                    out.append(("code", code2mid.get(x, "?")))
                else:
                    out.append(_tname(x))
            return tuple(out)

        def vname(v):
            if v in m.type_tuples:
                return handler_key(v)[1:]
            g = getattr(v, "__globals__", {})
            hs = tuple(sorted(handler_key(g[n])[1:] for n in g if n.startswith("HANDLER")))
            return ("dep", hs)

        keys = frozenset((kname(k), vname(v)) for k, v in m.items())
        errs = frozenset(kname(k) for k in m.errors)
        alls = frozenset(kname(k) for k in m.all)
        pos = tuple(sorted((str(i), frozenset(_tname(t) for t in tm.keys())) for i, tm in m.maps.items()))
        return ("built", defns, flags, keys, errs, alls, pos)
    except AttributeError:
        return None
