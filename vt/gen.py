"""Program generation on the real library: posets -> classes, method specs -> functions,
programs -> Ovld objects, calls -> normalised outcomes (DESIGN 2.2, 2.4)."""

import functools
import itertools
import linecache
import re
import sys
import typing

from . import env  # noqa: F401  (binds ovld to the tree under test)

import ovld
import ovld.utils as outils
from ovld import Ovld

from .core import HarnessError, classify_exception, short_exc

# ----------------------------------------------------------------------------------------
# canonical iteration order (hook H1).  Every explorer runs under a chooser; E3 (C06)
# substitutes permutations of this canonical order.

_ADDR = re.compile(r" at 0x[0-9a-fA-F]+")


def type_key(t):
    k = getattr(t, "_vt_key", None)
    if k is not None and isinstance(k, str):
        return (0, k)
    if isinstance(t, type) and t.__module__ == "vtgen":
        return (0, t.__name__)
    try:
        return (1, _ADDR.sub("", repr(t)))
    except Exception:  # pragma: no cover
        return (2, str(id(t)))


def handler_key(h):
    code = getattr(h, "__code__", None)
    clo = getattr(h, "__closure__", None)
    if code is not None and clo:
        fv = code.co_freevars
        if "MID" in fv:
            try:
                return (0, clo[fv.index("MID")].cell_contents, "")
            except ValueError:  # pragma: no cover
                pass
    return (1, 0, f"{getattr(h, '__name__', '')}:{getattr(code, 'co_firstlineno', 0)}")


def canonical_order(site, xs):
    if site == "sort_types":
        return sorted(xs, key=type_key)
    if site == "handlers":
        return sorted(xs, key=lambda e: handler_key(e[0] if isinstance(e, tuple) else e))
    if site == "candidates":
        return sorted(xs, key=lambda c: handler_key(c.handler))
    if site == "candidate-set":
        # the iteration over the set of handlers that builds the candidate list (the list itself is ordered again at
        # "candidates"): fixed, so that the sequence of executed lines is reproducible for the schedule explorer
        return sorted(xs, key=handler_key)
    return xs


def install_chooser(fn=canonical_order):
    outils._verif_chooser = fn


install_chooser()


# ----------------------------------------------------------------------------------------
# posets


@functools.lru_cache(None)
def posets(n):
    """All partial orders on n elements up to isomorphism, as tuples of ancestor sets.

    Element j's entry is the frozenset of its strict ancestors (superclasses); ancestors
    always carry smaller indices, so classes can be created in index order.
    """
    if n == 0:
        return ((),)
    pairs = [(i, j) for j in range(n) for i in range(j)]
    seen = {}
    for mask in range(1 << len(pairs)):
        anc = [set() for _ in range(n)]
        for b, (i, j) in enumerate(pairs):
            if mask >> b & 1:
                anc[j].add(i)
        for j in range(n):  # transitive closure (indices increase)
            for i in sorted(anc[j]):
                anc[j] |= anc[i]
        rel = frozenset((i, j) for j in range(n) for i in anc[j])
        best = None
        for perm in itertools.permutations(range(n)):
            r2 = tuple(sorted((perm[i], perm[j]) for i, j in rel))
            if best is None or r2 < best:
                best = r2
        if best not in seen:
            # keep the first labelled representative (ancestors have smaller indices)
            seen[best] = tuple(frozenset(a) for a in anc)
    out = sorted(seen.values(), key=lambda a: (sum(len(x) for x in a), [sorted(x) for x in a]))
    return tuple(out)


def covering(anc):
    """Transitive reduction: direct bases of each element."""
    cov = []
    for j, a in enumerate(anc):
        direct = [i for i in a if not any(i in anc[k] for k in a if k != i)]
        cov.append(sorted(direct))
    return cov


class Hierarchy:
    """Real classes for a poset.  ``names`` are K0..Kn-1; 'O' denotes ``object``."""

    _cache = {}

    def __init__(self, anc):
        self.anc = tuple(frozenset(a) for a in anc)
        self.n = len(self.anc)
        self.names = [f"K{i}" for i in range(self.n)]
        cov = covering(self.anc)
        self.classes = {}
        for j in range(self.n):
            bases = [self.classes[f"K{i}"] for i in cov[j]]
            cls = None
            for perm in itertools.permutations(bases):
                try:
                    cls = type(f"K{j}", tuple(perm) or (object,), {"__module__": "vtgen", "__slots__": ()})
                    break
                except TypeError:
                    continue
            if cls is None:  # pragma: no cover
                raise HarnessError(f"cannot build class K{j} for poset {anc}")
            self.classes[f"K{j}"] = cls
        self.classes["O"] = object
        self.instances = {nm: (object() if nm == "O" else c()) for nm, c in self.classes.items()}
        self.type_names = ["O"] + self.names

    @classmethod
    def get(cls, anc):
        key = tuple(tuple(sorted(a)) for a in anc)
        h = cls._cache.get(key)
        if h is None:
            h = cls._cache[key] = cls(anc)
        return h

    def spec(self):
        return {"classes": self.names, "bases": {f"K{j}": [f"K{i}" for i in covering(self.anc)[j]] for j in range(self.n)}}

    def subclass(self, a, b):
        """Reference subclass relation on names (reflexive); computed from the poset, not from Python."""
        if a == b or b == "O":
            return True
        if a == "O":
            return False
        return int(b[1:]) in self.anc[int(a[1:])]


class FlavouredHierarchy:
    """Fixed hierarchies with an ABC that has a registered virtual subclass and / or a runtime
    protocol with a structural implementer (same interface as Hierarchy)."""

    _cache = {}

    def __init__(self, flavour):
        import abc as _abc

        self.flavour = flavour
        ns = {"__module__": "vtgen"}
        K0 = type("K0", (), dict(ns, pm=lambda self: 1) if flavour in ("proto", "both", "twins") else dict(ns))
        K1 = type("K1", (K0,), dict(ns))
        K2 = type("K2", (), dict(ns))
        classes = {"K0": K0, "K1": K1, "K2": K2}
        if flavour in ("abc", "both", "abc-sub"):
            A = _abc.ABCMeta("A", (), dict(ns))
            # "abc-sub": the virtual subclass is K1, whose only base K0 is NOT accepted by A
            A.register(K1 if flavour == "abc-sub" else K2)
            classes["A"] = A
        if flavour in ("proto", "both", "twins"):
            P = typing.runtime_checkable(type("P", (typing.Protocol,), dict(ns, pm=lambda self: 1)))
            classes["P"] = P
        if flavour == "twins":
            # a structural twin: two distinct classes that are subclasses of each other (methods on them always tie)
            classes["P2"] = typing.runtime_checkable(type("P2", (typing.Protocol,), dict(ns, pm=lambda self: 1)))
        if flavour == "both":
            classes["K3"] = type("K3", (K1, K2), dict(ns))
        self.names = [k for k in classes]
        self.classes = dict(classes, O=object)
        self.instances = {nm: (object() if nm == "O" else c()) for nm, c in self.classes.items() if nm not in ("A", "P", "P2")}
        self.type_names = ["O"] + self.names
        self.value_names = [n for n in self.type_names if n not in ("A", "P", "P2")]
        self.n = len(self.names)

    @classmethod
    def get(cls, flavour):
        h = cls._cache.get(flavour)
        if h is None:
            h = cls._cache[flavour] = cls(flavour)
        return h

    def spec(self):
        return {"flavoured": self.flavour, "classes": self.names}


# ----------------------------------------------------------------------------------------
# method factories.  One generated source per (parameter list, body kind), cached per process;
# every method of every program is a fresh closure instance of such a factory.

_FACTORIES = {}
_FACTORY_GLOBALS = []
_counter = itertools.count()


def parse_shape(shape):
    """'x:N:0 y:N:1 k:K:0' -> [(name, kind, optional)]; kinds: S self, P positional-only,
    N positional-or-keyword, K keyword-only."""
    out = []
    for tok in shape.split():
        nm, kind, opt = tok.split(":")
        out.append((nm, kind, opt == "1"))
    return out


SHAPES = {
    "x?": "x:N:1",
    "x?y?": "x:N:1 y:N:1",
    "x": "x:N:0",
    "xy": "x:N:0 y:N:0",
    "xy?": "x:N:0 y:N:1",
    "x*k": "x:N:0 k:K:0",
    "x*k?": "x:N:0 k:K:1",
    "xyz": "x:N:0 y:N:0 z:N:0",
    "xy*k": "x:N:0 y:N:0 k:K:0",
    # two keyword-only parameters, in both declaration orders, one of them optional
    "x*kj": "x:N:0 k:K:0 j:K:0",
    "x*jk": "x:N:0 j:K:0 k:K:0",
    "x*j?k": "x:N:0 j:K:1 k:K:0",
    "x*kj?": "x:N:0 k:K:0 j:K:1",
}


def _params_src(params):
    parts = []
    seen_po = False
    seen_kw = False
    for i, (nm, kind, opt) in enumerate(params):
        if kind == "K" and not seen_kw:
            parts.append("*")
            seen_kw = True
        parts.append(f"{nm}=D[{nm!r}]" if opt else nm)
        if kind == "P":
            seen_po = True
            nxt = params[i + 1][1] if i + 1 < len(params) else None
            if nxt != "P":
                parts.append("/")
    return ", ".join(parts)


def _call_args_src(params, style="same"):
    pos = [nm for nm, kind, _ in params if kind in "PN"]
    kws = [nm for nm, kind, _ in params if kind == "K"]
    return ", ".join(pos + [f"{k}={k}" for k in kws])


def factory(shape, body="plain"):
    """Return factory(MID, LOG, D, F) -> function, for a parameter list and a body kind.

    body kinds: plain | cn (call_next, same args) | next (F[0].next, same positional args) |
    cnv (call_next(D['__v'])) | rec (recurse into the elements of a list argument) |
    selfname (as rec, naming F-bound function through the module global) | raise (raises D['__exc'])
    """
    key = (shape, body)
    f = _FACTORIES.get(key)
    if f is not None:
        return f
    params = parse_shape(shape)
    names = [nm for nm, kind, _ in params if kind != "S"]
    logd = "{" + ", ".join(f"{nm!r}: {nm}" for nm, kind, _ in params) + "}"
    same = _call_args_src([p for p in params if p[1] != "S"])
    first = names[0] if names else None
    if body == "plain":
        ret = "return ('r', MID)"
    elif body == "cn":
        ret = f"return ('r', MID, call_next({same}))"
    elif body == "cnstar":
        # call_next through the run-time helper (unpacked arguments)
        ret = f"return ('r', MID, call_next(*[{same}]))"
    elif body == "cnk":
        # call_next with every positional-or-keyword parameter given by name (positional-only ones stay positional)
        po = [nm for nm, kind, _ in params if kind == "P"]
        byname = [f"{nm}={nm}" for nm, kind, _ in params if kind in "NK"]
        ret = f"return ('r', MID, call_next({', '.join(po + byname)}))"
    elif body == "next":
        pos = ", ".join(nm for nm, kind, _ in params if kind in "PN")
        ret = f"return ('r', MID, F[0].next({pos}))"
    elif body == "cnv":
        ret = "return ('r', MID, call_next(D['__v']))"
    elif body == "cnv2":
        ret = "return ('r', MID, call_next(*D['__v']))" if False else "return ('r', MID, call_next(D['__v'][0], D['__v'][1]))"
    elif body == "rec":
        ret = f"return ('r', MID, [recurse(e) for e in {first}])"
    elif body == "ret":
        ret = "return D['__ret']"
    elif body == "ret-rw":
        # mentions recurse (never evaluated), so the library rewrites and recompiles this method
        ret = "return D['__ret'] if LOG is not None else recurse()"
    elif body == "raise":
        ret = "raise D['__exc']"
    else:
        raise HarnessError(f"unknown body kind {body}")
    src = (
        "def __factory__(MID, LOG, D, F):\n"
        f"    def m({_params_src(params)}):\n"
        f"        LOG.append((MID, {logd}))\n"
        f"        {ret}\n"
        "    return m\n"
    )
    fname = f"<vtgen:{next(_counter)}:{shape}:{body}>"
    linecache.cache[fname] = (len(src), None, src.splitlines(True), fname)
    glb = {"call_next": ovld.call_next, "recurse": ovld.recurse, "__name__": "vtgen"}
    exec(compile(src, fname, "exec"), glb, glb)
    _FACTORY_GLOBALS.append(glb)
    f = _FACTORIES[key] = glb["__factory__"]
    return f


def purge_globals():
    """Drop the ___OVLD<n>/___MAP<n>/___CODE<n> names rewritten methods leave in their globals."""
    for glb in _FACTORY_GLOBALS:
        for k in [k for k in glb if k.startswith("___")]:
            del glb[k]
    for k in [k for k in linecache.cache if k.startswith("<ovld:")]:
        del linecache.cache[k]


class Sentinel:
    __slots__ = ("name",)

    def __init__(self, name):
        self.name = name

    def __repr__(self):
        return f"<{self.name}>"


def make_method(mspec, classes, log, fref, annotate):
    """mspec: {'id', 'shape' (expanded), 'types': {param: typespec}, 'prio', 'body'}"""
    params = parse_shape(mspec["shape"])
    defaults = {nm: Sentinel(f"default:{mspec['id']}:{nm}") for nm, kind, opt in params if opt}
    extra = mspec.get("env") or {}
    defaults.update(extra)
    fn = factory(mspec["shape"], mspec.get("body") or "plain")(mspec["id"], log, defaults, fref)
    ann = {}
    for nm, t in mspec.get("types", {}).items():
        if t is not None:
            ann[nm] = annotate(t, classes)
    fn.__annotations__ = ann
    fn.__name__ = f"m{mspec['id']}"
    fn.__qualname__ = f"m{mspec['id']}"
    return fn, defaults


def annotate_static(t, classes):
    """Type spec -> annotation object, static class fragment ('O', 'K<i>', or a registered name)."""
    return classes[t]


# ----------------------------------------------------------------------------------------
# programs


class Program:
    """A real Ovld built from method specs over a class environment."""

    def __init__(self, classes, methods, annotate=annotate_static, register=True, name=None):
        self.classes = classes
        self.mspecs = methods
        self.log = []
        self.fref = [None]
        self.fns = {}
        self.defaults = {}
        self.annotate = annotate
        self.ov = Ovld(name=name)
        self.fref[0] = self.ov
        for ms in methods:
            fn, d = make_method(ms, classes, self.log, self.fref, annotate)
            self.fns[ms["id"]] = fn
            self.defaults[ms["id"]] = d
            if register:
                self.ov.register(fn, priority=ms.get("prio", 0))

    @property
    def entry(self):
        return getattr(self.ov, "dispatch", self.ov)

    def call(self, args, kwargs=None, entry="dispatch"):
        """One real call -> (kind, trace, payload)."""
        del self.log[:]
        fn = self.entry if entry == "dispatch" else self.ov
        return run_call(fn, args, kwargs or {}, self.log)

    def resolve_mid(self, args):
        """MID of the method resolve() names (positional args only), or the outcome kind."""
        try:
            h = self.ov.resolve(*args)
        except Exception as e:  # noqa
            return classify_exception(e, [])
        k = handler_key(h)
        return k[1] if k[0] == 0 else "?" + getattr(h, "__name__", "")


def run_call(fn, args, kwargs, log):
    try:
        ret = fn(*args, **kwargs)
    except Exception as e:  # noqa
        kind = classify_exception(e, log)
        return (kind, tuple(m for m, _ in log), short_exc(e) if kind.startswith("exc:") else None, e)
    return ("ret", tuple(m for m, _ in log), ret, None)


def kind_of(outcome):
    return outcome[0]
