"""C05 -- after register/unregister, behaviour equals a freshly built function (E2, differential)."""

import itertools
import time

from . import core, e2, gen, spaces
from .gen import Hierarchy, posets

PROP = "C05"

from ovld import MultiTypeMap, Ovld  # noqa: E402
from ovld.core import Signature  # noqa: E402


def norm(out):
    return (out[0], out[1], repr(out[2]))


TYPE_POOL = [["type", "K0"], ["type", "O"], "O", "K0", ["type", ["gen", "list", "K0"]]]


class OvldModel(e2.Model):
    """ops: ('reg', i) / ('unreg', i) / ('call', c).  Oracle: every call equals the same call on a
    new Ovld on which the surviving methods are registered in their original relative order."""

    def __init__(self, classes, pool, sigma, depth_from_initial=True, annotate=gen.annotate_static):
        self.classes = classes
        self.pool = pool
        self.sigma = sigma
        self.fresh_cache = {}
        self.annotate = annotate

    # the 15-line model of "the resulting method set"
    @staticmethod
    def survivors(hist):
        live = []
        for op in hist:
            if op[0] == "reg":
                if op[1] in live:
                    live.remove(op[1])
                live.append(op[1])
            elif op[0] == "unreg" and op[1] in live:
                live.remove(op[1])
        return tuple(live)

    def initial(self):
        k = len(self.pool)
        out = []
        for r in range(k + 1):
            for sub in itertools.combinations(range(k), r):
                h = tuple(("reg", i) for i in sub)
                out.append(h)
                if sub:
                    out.append(h + (("call", 0),))
        return out

    def ops(self, hist):
        live = self.survivors(hist)
        for i in range(len(self.pool)):
            yield ("unreg", i) if i in live else ("reg", i)
        if live:
            for c in range(len(self.sigma)):
                yield ("call", c)
            if not hist or hist[-1][0] != "badreg":
                yield ("badreg", 0)  # a registration the library must refuse: nothing may change

    def new(self):
        return gen.Program(self.classes, self.pool, register=False, annotate=self.annotate)

    def do(self, p, op):
        if op[0] == "reg":
            p.ov.register(p.fns[op[1]], priority=self.pool[op[1]].get("prio", 0))
            return ("ok",)
        if op[0] == "unreg":
            p.ov.unregister(p.fns[op[1]])
            return ("ok",)
        if op[0] == "badreg":
            try:
                p.ov.register(_unsupported)
            except TypeError:
                return ("refused",)
            return ("accepted",)
        return norm(p.call(*self.sigma[op[1]]))

    def build(self, hist):
        p = self.new()
        for op in hist:
            self.do(p, op)
        return p

    def apply(self, p, op):
        try:
            return self.do(p, op)
        except Exception as e:  # a mutation that raises is an outcome too
            return ("raised", core.short_exc(e))

    def canon(self, p, hist):
        s = e2.snapshot_ovld(p.ov)
        return s if s is not None else hist

    def expected(self, live, c):
        key = (live, c)
        if key not in self.fresh_cache:
            p = self.new()
            for i in live:
                p.ov.register(p.fns[i], priority=self.pool[i].get("prio", 0))
            self.fresh_cache[key] = norm(p.call(*self.sigma[c]))
        return self.fresh_cache[key]

    def check(self, hist, op, out, obj):
        if op[0] == "call":
            exp = self.expected(self.survivors(hist), op[1])
            if out != exp:
                yield (f"stale:{exp[0]}->{out[0]}", {"fresh_build": exp, "after_history": out})
        elif op[0] == "badreg":
            if out != ("refused",):
                yield ("unsupported-method-not-refused", {"out": out})
        elif out != ("ok",):
            yield ("mutation-raised", {"out": out})


def _unsupported(x, **kwargs):
    return "unsupported"


class MapModel(e2.Model):
    """The public MultiTypeMap: register + lookup (it has no unregister)."""

    def __init__(self, classes, pool, sigma):
        self.classes = classes
        self.pool = pool  # [(types tuple of names, prio)]
        self.sigma = sigma  # [tuple of names]
        self.fresh_cache = {}

    def sig(self, i):
        types, prio = self.pool[i]
        return Signature(types=tuple(self.classes[t] for t in types), return_type=None, req_pos=len(types),
                         max_pos=len(types), req_names=frozenset(), vararg=False, priority=prio)

    @staticmethod
    def registered(hist):
        return tuple(op[1] for op in hist if op[0] == "reg")

    def initial(self):
        k = len(self.pool)
        out = []
        for r in range(k + 1):
            for sub in itertools.combinations(range(k), r):
                h = tuple(("reg", i) for i in sub)
                out.append(h)
                if sub:
                    out.append(h + (("get", 0),))
        return out

    def ops(self, hist):
        live = self.registered(hist)
        for i in range(len(self.pool)):
            if i not in live:
                yield ("reg", i)
        for c in range(len(self.sigma)):
            yield ("get", c)

    def do(self, m, op):
        if op[0] == "reg":
            m.register(self.sig(op[1]), f"h{op[1]}")
            return ("ok",)
        tup = tuple(self.classes[t] for t in self.sigma[op[1]])
        try:
            return ("found", m[tup])
        except KeyError as e:
            cands = e.args[1] if len(e.args) > 1 else ()
            return ("keyerror", tuple(sorted(getattr(c, "handler", c) for c in cands)))

    def build(self, hist):
        m = MultiTypeMap()
        for op in hist:
            self.do(m, op)
        return m

    def apply(self, m, op):
        try:
            return self.do(m, op)
        except Exception as e:  # noqa
            return ("raised", core.short_exc(e))

    def canon(self, m, hist):
        try:
            keys = frozenset((tuple(gen.type_key(t) for t in k), v) for k, v in m.items())
            errs = frozenset(tuple(gen.type_key(t) for t in k) for k in m.errors)
            alls = frozenset(tuple(gen.type_key(t) for t in k) for k in m.all)
            pos = tuple(sorted((i, frozenset(gen.type_key(t) for t in tm.keys())) for i, tm in m.maps.items()))
            return (self.registered(hist), keys, errs, alls, pos)
        except AttributeError:
            return hist

    def check(self, hist, op, out, obj):
        if op[0] == "get":
            live = self.registered(hist)
            key = (live, op[1])
            if key not in self.fresh_cache:
                m = MultiTypeMap()
                for i in live:
                    self.do(m, ("reg", i))
                self.fresh_cache[key] = self.do(m, op)
            exp = self.fresh_cache[key]
            if out != exp:
                yield (f"stale-table:{exp[0]}->{out[0]}", {"fresh_table": exp, "after_history": out})
        elif out != ("ok",):
            yield ("mutation-raised", {"out": out})


# ----------------------------------------------------------------------------------------


def pools(tier):
    """(space, kind, hier, pool descs, body, depth)"""
    H = lambda lo, hi: [Hierarchy.get(a) for n in range(lo, hi + 1) for a in posets(n)]  # noqa
    if tier == "quick":
        cfg = [("o1:Ovld,1pos,n<=2,k=3,prio", "ovld", H(1, 2), ["x"], (0, 1), 3, ("plain",), 4),
               ("o1c:Ovld,1pos,n<=1,k=3,call_next", "ovld", H(1, 1), ["x"], (0, 1), 3, ("cn",), 3),
               ("o2:Ovld,2pos,n=1,k=3", "ovld", H(1, 1), ["xy"], (0,), 3, ("plain",), 3),
               ("o3:Ovld,mixed shapes (optional positional / keyword come and go),n=1,k=3", "ovld", H(1, 1), ["x", "xy", "x*k?"], (0,), 3, ("plain",), 3),
               ("o5:Ovld,1pos,n<=2,k=2 plain methods + a recursive walker over lists", "ovld", H(1, 2), ["x"], (0, 1), 2, ("rec+",), 4),
               ("t1:table,1pos,n<=2,k=3,prio", "map", H(1, 2), ["x"], (0, 1), 3, ("plain",), 3),
               ("t2:table,2pos,n=1,k=3", "map", H(1, 1), ["xy"], (0,), 3, ("plain",), 4)]
    else:
        # (bounds set from measured cost: the first version ran > 1.5 h, a first trim still > 1 h under load)
        cfg = [("O1:Ovld,1pos,n<=3,k=3,prio", "ovld", H(1, 3), ["x"], (0, 1), 3, ("plain", "cn"), 3),
               ("O1a:Ovld,1pos,n<=2,k=3,prio", "ovld", H(1, 2), ["x"], (0, 1), 3, ("plain", "cn"), 5),
               ("O1k4:Ovld,1pos,n<=2,k=4", "ovld", H(1, 2), ["x"], (0, 1), 4, ("plain",), 4),
               ("O2:Ovld,2pos,n<=2,k=3", "ovld", H(1, 2), ["xy"], (0,), 3, ("plain",), 2),
               ("O2a:Ovld,2pos,n=1,k=3", "ovld", H(1, 1), ["xy"], (0, 1), 3, ("plain", "cn"), 4),
               ("O3:Ovld,mixed shapes,n<=2,k=3", "ovld", H(1, 2), ["x", "xy?", "x*k?"], (0,), 3, ("plain", "cn"), 3),
               ("O5:Ovld,1pos,n<=2,k=3 plain methods + a recursive walker over lists", "ovld", H(1, 2), ["x"], (0, 1), 3, ("rec+",), 4),
               ("T1:table,1pos,n<=3,k<=4,prio", "map", H(1, 3), ["x"], (0, 1), 4, ("plain",), 4),
               ("T2:table,2pos,n<=2,k=3", "map", H(1, 2), ["xy"], (0,), 3, ("plain",), 3),
               ("T2a:table,2pos,n=1,k=3", "map", H(1, 1), ["xy"], (0, 1), 3, ("plain",), 5)]
    for name, kind, hiers, shapes, prios, k, bodies, depth in cfg:
        for h in hiers:
            ds = spaces.descriptors(h.type_names, shapes, prios)
            for descs in spaces.multisets(ds, k, k):
                # every mutation must matter to some probe: an identical-signature pair, or two
                # methods with different types (so presence/absence changes some call)
                if len(set(descs)) == len(descs) and len({d[1] for d in descs}) == 1 and len({d[0] for d in descs}) == 1:
                    continue
                for body in bodies:
                    yield name, kind, h, descs, body, depth


def run_pool(acc, space, kind, h, descs, body, depth):
    npos = len(descs[0][1])
    names = [tuple(t) for t in itertools.product(h.type_names, repeat=npos)]
    mixed = len({d[0] for d in descs}) > 1 or any(d[0] not in ("x", "xy") for d in descs)
    if kind == "ovld" and mixed:
        # every call shape some method of the pool accepts (one class suffices: the shapes are what varies)
        calls = spaces.calls_for(h.type_names[-1:], sorted({d[0] for d in descs}))
        names = [tuple(a) + tuple(f"{k}={v}" for k, v in kw.items()) for a, kw in calls]
        mspecs = spaces.mspecs_of(descs, body=None if body == "plain" else body)
        sigma = [(tuple(h.instances[a] for a in args), {k: h.instances[v] for k, v in kw.items()}) for args, kw in calls]
        if body != "plain" and any(d[0] not in ("x", "xy", "xyz") for d in descs):
            return
    elif kind == "ovld" and body == "rec+":
        # plain methods + one rewritten method that recurses into list elements: the rewritten method's view of the
        # function must follow every later change made by methods that are not themselves rewritten
        mspecs = spaces.mspecs_of(descs, body=None)
        mspecs.append({"id": len(mspecs), "shape": gen.SHAPES["x"], "types": {"x": "list"}, "prio": 0, "body": "rec"})
        names = names + [(f"[{t[0]}]",) for t in names]
        sigma = sigma_from_names(h, names)
    elif kind == "ovld":
        mspecs = spaces.mspecs_of(descs, body=None if body == "plain" else body)
        sigma = [(tuple(h.instances[a] for a in t), {}) for t in names]
    if kind == "ovld":
        model = OvldModel(dict(h.classes, list=list), mspecs, sigma)
        casebase = {"space": space, "kind": kind, "hier": h.spec(), "methods": mspecs, "sigma": [list(t) for t in names]}
    else:
        pool = [(d[1], d[2]) for d in descs]
        model = MapModel(h.classes, pool, names)
        casebase = {"space": space, "kind": kind, "hier": h.spec(), "pool": [[list(t), p] for t, p in pool], "sigma": [list(t) for t in names]}

    def on_violation(hist, op, disc, detail):
        case = dict(casebase, history=[list(o) for o in hist], op=list(op))
        acc.violation(case, disc, {k: (list(v[:2]) if isinstance(v, tuple) else v) for k, v in detail.items()})

    st = e2.bfs(model, depth, acc, on_violation=on_violation, merge_every=8)
    acc.count("programs")
    acc.count("nontrivial", st["states"])
    acc.h("programs_per_space", space)
    if acc.n["programs"] % 25 == 1:
        acc.sample(dict(casebase, states=st["states"], transitions=st["transitions"], max_depth=st["max_depth"]))


def sigma_from_names(h, names):
    def val(a):
        return [h.instances[a[1:-1]]] if a.startswith("[") else h.instances[a]

    sigma = []
    for t in names:
        args = tuple(val(a) for a in t if "=" not in a)
        kw = {a.split("=")[0]: h.instances[a.split("=")[1]] for a in t if "=" in a}
        sigma.append((args, kw))
    return sigma


def type_pools(tier):
    import itertools as it

    for combo in it.combinations(range(len(TYPE_POOL)), 3):
        yield combo


def run_type_pool(acc, combo, depth):
    from . import annot

    h = Hierarchy.get(posets(2)[1]) if len(posets(2)) > 1 else Hierarchy.get(posets(2)[0])
    classes = dict(h.classes, list=list)
    mspecs = [{"id": i, "shape": gen.SHAPES["x"], "types": {"x": TYPE_POOL[j]}, "prio": 0} for i, j in enumerate(combo)]
    K0, K1 = h.classes["K0"], h.classes["K1"]
    vals = [("K0", K0), ("K1", K1), ("int", int), ("list[K0]", list[K0]), ("K0()", h.instances["K0"]), ("5", 5)]
    sigma = [((v,), {}) for _, v in vals]
    model = OvldModel(classes, mspecs, sigma, annotate=annot.annotate)
    casebase = {"space": "o4:Ovld,type[...] pool", "kind": "types", "pool": [TYPE_POOL[j] for j in combo], "combo": list(combo), "sigma": [n for n, _ in vals]}

    def on_violation(hist, op, disc, detail):
        acc.violation(dict(casebase, history=[list(o) for o in hist], op=list(op)), disc,
                      {k: (list(v[:2]) if isinstance(v, tuple) else v) for k, v in detail.items()})

    st = e2.bfs(model, depth, acc, on_violation=on_violation, merge_every=4)
    acc.count("programs")
    acc.count("nontrivial", st["states"])
    acc.h("programs_per_space", casebase["space"])


def shard(shard, nshards, tier, seed):
    acc = core.Acc(PROP)
    idx = -1
    for idx, (space, kind, h, descs, body, depth) in enumerate(pools(tier)):
        if idx % nshards != shard:
            continue
        run_pool(acc, space, kind, h, descs, body, depth)
        if idx % 20 == 0:
            gen.purge_globals()
    for j, combo in enumerate(type_pools(tier)):
        if (idx + 1 + j) % nshards == shard:
            run_type_pool(acc, combo, 4 if tier == "quick" else 5)
    gen.purge_globals()
    return acc


def replay(case):
    from .c02 import _anc

    if case["kind"] == "types":
        acc = core.Acc(PROP)
        run_type_pool(acc, tuple(case["combo"]), len(case["history"]) + 1)
        return [(r["disc"], r["detail"]) for r in acc.viol if r["case"]["history"] == case["history"] and r["case"]["op"] == case["op"]]

    h = Hierarchy.get([frozenset(int(b[1:]) for b in _anc(case["hier"], c)) for c in case["hier"]["classes"]])
    hist = tuple(tuple(o) for o in case["history"])
    op = tuple(case["op"])
    names = [tuple(t) for t in case["sigma"]]
    if case["kind"] == "ovld":
        model = OvldModel(dict(h.classes, list=list), case["methods"], sigma_from_names(h, names))
    else:
        model = MapModel(h.classes, [(tuple(t), p) for t, p in case["pool"]], names)
    obj = model.build(hist)
    out = model.apply(obj, op)
    return list(model.check(hist, op, out, obj))


def main(tier):
    t0 = time.time()
    merged = core.run_sharded(__name__, "shard", tier)
    return core.finish(
        PROP, tier, "model_checking", merged, t0,
        rule="explicit-state BFS over register / unregister / call histories on a real Ovld, and register / lookup histories on "
             "the public MultiTypeMap, for every pool of k methods over the stated hierarchies that contains an identical-"
             "signature pair or differing types (also: plain methods + one rewritten method that recurses into list elements, "
             "probed with list-wrapped arguments); started from every subset of the pool pre-registered, never used and used "
             "once; states = the library's own method table (with push-down ranks) + cache snapshot; oracle: every call "
             "equals the same call on a brand-new object built from the surviving methods in their original order",
        assumptions=["state abstraction tested by re-expanding a quarter of the re-reached states",
                     "canonical set-iteration order via hook H1"],
        states_key="states", transitions_key="transitions",
    )
