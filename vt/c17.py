"""C17 -- overloaded methods in classes merge per class and inherit without leaking (E7 graph variant)."""

import itertools
import linecache
import time

from . import core, gen
from .ref import RefOvld

PROP = "C17"

import ovld  # noqa: E402

VALUES = [("1", 1), ("'a'", "a"), ("[1,'a']", [1, "a"]), ("[[1]]", [[1]]), ("1.5", 1.5), ("[]", [])]

# pool of definitions of the method ``f``: key -> (annotation, priority, body kind)
POOL = {"int": ("int", 0, "leaf"), "str": ("str", 0, "leaf"), "list": ("list", 0, "rec"), "wrap": ("int", 10, "cn"), "obj": ("object", -1, "leaf")}

_counter = itertools.count()


def class_source(name, bases, kind, defs, mid_base):
    """defs: list of (pool key, marked)"""
    if kind == "base" and not bases:
        head = f"class {name}(OvldBase):"
    elif kind == "meta" and not bases:
        head = f"class {name}(metaclass=OvldMC):"
    elif kind == "plain" and not bases:
        head = f"class {name}:"
    else:
        head = f"class {name}({', '.join(bases)}):"
    lines = [head]
    if not defs:
        lines.append("    pass")
    for j, (key, marked) in enumerate(defs):
        ann, prio, body = POOL[key]
        mid = mid_base + j
        if marked:
            lines.append("    @extend_super")
        if prio:
            lines.append(f"    @ovld(priority={prio})")
        lines.append(f"    def f(self, x: {ann}):")
        lines.append(f"        LOG.append(({mid}, self, x))")
        if body == "leaf":
            lines.append(f"        return ('leaf', {mid})")
        elif body == "rec":
            lines.append(f"        return ('w', {mid}, [recurse(e) for e in x])")
        else:
            lines.append(f"        return ('wrap', {mid}, call_next(x))")
    return "\n".join(lines) + "\n"


class Spec:
    """A program: ordered classes with bases, kind and definitions."""

    def __init__(self, classes):
        self.classes = classes  # list of (name, bases, kind, defs)

    def json(self):
        return [[n, list(b), k, [list(d) for d in defs]] for n, b, k, defs in self.classes]


def shapes(n):
    """Base lists for classes C0..Cn-1 (bases have smaller indices)."""
    if n == 1:
        yield [()]
    elif n == 2:
        yield [(), (0,)]
    elif n == 3:
        yield [(), (0,), (1,)]
        yield [(), (0,), (0,)]
        yield [(), (), (0, 1)]
    elif n == 5:
        yield [(), (), (0,), (1,), (2, 3)]
    elif n == "5b":
        # overloaded root, unmarked plain mixin, marked mixin; one class extending root + plain mixin, and an
        # independent sibling that joins all three (the earlier sibling must not change what the later one gets)
        yield [(), (), (), (0, 1), (0, 1, 2)]
    else:
        yield [(), (0,), (0,), (1, 2)]
        yield [(), (0,), (1,), (2,)]
        yield [(), (), (0, 1), (2,)]
        yield [(), (0,), (), (1, 2)]


def def_options(tier, is_root, has_ovld_base, kind=None):
    keys = ["int", "str", "list", "wrap"] if tier == "quick" else ["int", "str", "list", "wrap", "obj"]
    if kind == "plain":
        # a mixin class without the metaclass: one definition, possibly marked (the create_subclass / mixin idiom)
        return [[]] + [[(k, m)] for k in ("int", "str", "list") for m in (False, True)]
    opts = [[]]
    if kind == "markedroot":
        # a root whose first definition is marked although there is nothing to extend (the mixin idiom with the
        # metaclass): an overload of its own definitions that later classes merge implicitly
        return [[]] + [[(k, True)] for k in ("int", "str")] + [[("str", True), ("wrap", False)], [("int", True), ("str", False)]]
    for k in keys:
        for marked in ((False, True) if not is_root else (False,)):
            opts.append([(k, marked)])
    pairs = [("int", "str"), ("int", "list"), ("str", "list"), ("wrap", "int"), ("int", "int")]
    for a, b in pairs:
        for marked in ((False, True) if not is_root else (False,)):
            opts.append([(a, marked), (b, False)])
            if not is_root and tier != "quick":
                opts.append([(a, False), (b, True)])
        if not is_root and (a, b) in (("int", "str"), ("wrap", "int"), ("int", "int")):
            # every definition marked (the mark on the later ones adds nothing: they join the same overload)
            opts.append([(a, True), (b, True)])
    return opts


def programs(tier):
    sizes = (1, 2, 3, 5, "5b") if tier == "quick" else (1, 2, 3, 4, 5, "5b")
    for n in sizes:
        for bases in shapes(n):
            if n == "5b":
                yield from programs_5b(tier, bases)
                continue
            roots = [i for i in range(n) if not bases[i]]
            kinds_opts = []
            for i in range(n):
                if not bases[i]:
                    kinds_opts.append(("base", "meta") if i == roots[0] else ("base", "meta", "plain"))
                else:
                    kinds_opts.append(("sub",))
            for kinds in itertools.product(*kinds_opts):
                opts = []
                for i in range(n):
                    o = def_options(tier, not bases[i], True, "markedroot" if (not bases[i] and i > 0 and kinds[i] != "plain" and n in (3, 5)) else kinds[i])
                    marked_root = not bases[i] and i > 0 and kinds[i] != "plain" and n in (3, 5)
                    if (n == 4 or (n == 3 and tier == "quick")) and not marked_root:
                        o = [d for d in o if len(d) <= 1] if bases[i] == () and i > 0 else o
                        if n == 4:
                            o = [d for d in o if len(d) <= 1]
                    opts.append(o)
                if n == 5:
                    # A (overloaded root), M (plain mixin), AChild(A) and MChild(M) only inherit, X(AChild, MChild)
                    if kinds[1] != "plain":
                        continue
                    opts[2] = [[]]
                    opts[3] = [[]]
                    opts[0] = [d for d in opts[0] if d]
                    opts[4] = [d for d in opts[4] if len(d) <= 1]
                for defs in itertools.product(*opts):
                    if not defs[roots[0]]:
                        continue
                    yield Spec([(f"C{i}", tuple(f"C{b}" for b in bases[i]), kinds[i], defs[i]) for i in range(n)])


def programs_5b(tier, bases):
    keys = ("int", "str", "list") if tier == "quick" else ("int", "str", "list", "wrap")
    for k0 in ("base", "meta"):
        for k2 in ("plain", "base"):
            for d0 in [[(k, False)] for k in keys] + [[("int", False), ("str", False)]]:
                for d1 in [[(k, False)] for k in ("int", "str", "list")]:
                    for d2 in [[(k, True)] for k in ("int", "str")]:
                        for d3 in [[]] + [[(k, True)] for k in keys]:
                            for d4 in [[]] + [[(k, True)] for k in keys[:2]]:
                                defs = [d0, d1, d2, d3, d4]
                                kinds = [k0, "plain", k2, "sub", "sub"]
                                yield Spec([(f"C{i}", tuple(f"C{b}" for b in bases[i]), kinds[i], defs[i]) for i in range(5)])


class RefMethodSpec(dict):
    pass


def mspec(mid, key):
    ann, prio, body = POOL[key]
    return {"id": mid, "shape": "x:N:0", "types": {"x": {"int": "int", "str": "str", "list": "list", "object": "O"}[ann]}, "prio": prio,
            "body": {"leaf": "plain", "rec": "rec", "cn": "cn"}[body]}


class Sem:
    C = {"int": int, "str": str, "list": list, "O": object}

    def instance(self, v, t):
        return isinstance(v, self.C[t])

    def leq(self, a, b):
        return issubclass(self.C[a], self.C[b])


def sim(eff, v):
    """Expected (kind, trace of MIDs) of calling the merged method set on v (R1-R5)."""
    ref = RefOvld(eff, Sem())
    kind, trace = ref.run((v,), {})
    trace = list(trace)
    if kind == "ret" and trace and ref.by_id[trace[-1]].body == "rec":
        for e in v:
            k2, t2 = sim(eff, e)
            trace += t2
            if k2 != "ret":
                return k2, trace
    return kind, trace


def effective_sets(spec):
    """class name -> list of mspecs, or None where the statement / documentation is silent."""
    eff = {}
    own = {}
    flagged = {}  # class -> its f is an overload marked extend_super (merged implicitly by subclasses without own definition)
    mid = 0
    for name, bases, kind, defs in spec.classes:
        own[name] = [(mid + j, key) for j, (key, marked) in enumerate(defs)]
        mid += 10
    mro_first = {}
    for name, bases, kind, defs in spec.classes:
        inherited_known = True
        layers = []
        for b in bases:
            if eff.get(b, "nodef") is None:
                inherited_known = False
            elif eff.get(b) not in (None, "nodef"):
                layers.append((b, eff[b]))
        if kind == "plain":
            # methods of a class without the metaclass are plain functions (last definition wins), unless
            # marked: extend_super turns the definition into an overload of its own
            if not own[name]:
                eff[name] = "nodef"
            elif defs[-1][1]:
                eff[name] = ("ovld", [mspec(*own[name][-1])])
                flagged[name] = True
            else:
                eff[name] = ("plain", [mspec(*own[name][-1])])
            continue
        if not defs:
            with_f = [b for b in bases if eff.get(b, "nodef") != "nodef"]
            if not layers:
                eff[name] = "nodef" if not with_f else None
            elif len(with_f) == 1 and inherited_known:
                eff[name] = layers[0][1]
                flagged[name] = flagged.get(with_f[0], False)
            elif (inherited_known and len(with_f) == len(layers) and layers[0][1][0] == "ovld"
                  and all(flagged.get(b) for b in with_f[1:])):
                # the first base's overload merged with the marked overloads of the later bases
                merged = list(layers[0][1][1])
                ok = True
                for b, e in layers[1:]:
                    for m in e[1]:
                        if any(_sig(x) == _sig(m) and x["id"] != m["id"] for x in merged):
                            ok = False
                        elif not any(x["id"] == m["id"] for x in merged):
                            merged.append(m)
                eff[name] = ("ovld", merged) if ok else None
            else:
                eff[name] = None
            continue
        if not inherited_known:
            eff[name] = None
            continue
        if not layers:
            ms = [mspec(m, k) for m, k in own[name]]
            if len(ms) == 1 and not defs[0][1]:
                # a single unmarked definition is an ordinary Python method (nothing to merge, no dispatch)
                eff[name] = ("plain", ms)
            elif defs[0][1] and not any(m for _, m in defs[1:]):
                # marked although there is nothing to extend: an overload of the class's own definitions,
                # which classes deriving from it merge implicitly (as with marked mixins)
                eff[name] = ("ovld", _overlay([], ms))
                flagged[name] = True
            elif any(m for _, m in defs[1:]):
                eff[name] = None  # a mark on a later definition only
            else:
                eff[name] = ("ovld", _overlay([], ms))
            continue
        first_marked = defs[0][1]
        if not first_marked:
            eff[name] = None  # (a mark on a later definition only: unspecified)
            continue
        merged = []
        for b, e in layers:
            tag, ms = e
            for m in ms:
                clash = [x for x in merged if _sig(x) == _sig(m) and x["id"] != m["id"]]
                if clash:
                    # the same signature contributed by two bases with different functions
                    eff[name] = None
                    break
                if not any(x["id"] == m["id"] for x in merged):
                    merged.append(m)
            else:
                continue
            break
        else:
            eff[name] = ("ovld", _overlay(merged, [mspec(m, k) for m, k in own[name]]))
    return eff


def _sig(m):
    return (m["types"]["x"], m["prio"])


def _overlay(inherited, own):
    out = [m for m in inherited if not any(_sig(m) == _sig(o) for o in own)]
    return out + own


def ancestors(spec, name):
    by = {n: b for n, b, k, d in spec.classes}
    out, todo = set(), [name]
    while todo:
        c = todo.pop()
        for b in by[c]:
            if b not in out:
                out.add(b)
                todo.append(b)
    return out


def plain_tables(classes, mids):
    """Outcome table of every class of a program built from scratch (no judging): name -> rows | ('error', exc name)."""
    log = []
    glb = {"LOG": log, "__name__": "vtgen"}
    exec("from ovld import OvldBase, OvldMC, extend_super, ovld, recurse, call_next", glb, glb)
    gen._FACTORY_GLOBALS.append(glb)
    fname = f"<vtgen:c17:{next(_counter)}>"
    src = ""
    out = {}
    broken = set()  # classes whose statement raised, and their descendants (the others are still defined)
    for name, bases, kind, defs in classes:
        if any(b in broken for b in bases):
            broken.add(name)
            out[name] = ("error", "base-class-missing")
            continue
        chunk = class_source(name, bases, kind, defs, mids[name])
        lineno = src.count("\n") + 1
        src += chunk
        linecache.cache[fname] = (len(src), None, src.splitlines(True), fname)
        try:
            exec(compile("\n" * (lineno - 1) + chunk, fname, "exec"), glb, glb)
        except Exception as e:  # noqa
            broken.add(name)
            out[name] = ("error", type(e).__name__)
            continue
        inst = glb[name]()
        rows = []
        for vn, v in VALUES:
            del log[:]
            f = getattr(inst, "f", None)
            if f is None:
                rows.append(("nodef", ()))
                continue
            o = gen.run_call(f, (v,), {}, [])
            rows.append((o[0], tuple(e[0] for e in log)))
        out[name] = rows
    return out


def independence(spec, acc, report):
    """(iv) a class behaves the same whether or not unrelated / sibling classes were defined before it."""
    mids = {name: 10 * i for i, (name, b, k, d) in enumerate(spec.classes)}
    full = None
    for i, (name, bases, kind, defs) in enumerate(spec.classes):
        anc = ancestors(spec, name)
        earlier = {n for n, b, k, d in spec.classes[:i]}
        if earlier <= anc:
            continue
        if full is None:
            full = plain_tables(spec.classes, mids)
        alone = plain_tables([c for c in spec.classes[: i + 1] if c[0] in anc or c[0] == name], mids)
        if acc is not None:
            acc.count("independence_checks")
            acc.count("evaluations", 2 * len(VALUES))
        if full[name] != alone[name]:
            a, b = alone[name], full[name]
            diff = [("class statement", a, b)] if isinstance(a, tuple) or isinstance(b, tuple) else \
                [(VALUES[j][0], list(x), list(y)) for j, (x, y) in enumerate(zip(a, b)) if x != y]
            report("leak:depends-on-unrelated-earlier-classes", {"without_them": str(diff[0][1])[:120], "with_them": str(diff[0][2])[:120],
                                                               "value": diff[0][0], "unrelated": sorted(earlier - anc)}, name)


def run_program(spec, acc):
    log = []
    src = "from ovld import OvldBase, OvldMC, extend_super, ovld, recurse, call_next\n"
    mid = 0
    chunks = []
    for name, bases, kind, defs in spec.classes:
        chunks.append(class_source(name, bases, kind, defs, mid))
        mid += 10
    fname = f"<vtgen:c17:{next(_counter)}>"
    glb = {"LOG": log, "__name__": "vtgen"}
    exec("from ovld import OvldBase, OvldMC, extend_super, ovld, recurse, call_next", glb, glb)
    gen._FACTORY_GLOBALS.append(glb)
    found = []
    tables = {}
    full_src = ""
    lineno = 1
    eff = effective_sets(spec)

    def table(cname):
        cls = glb[cname]
        inst = cls()
        rows = []
        for vn, v in VALUES:
            del log[:]
            f = getattr(inst, "f", None)
            if f is None:
                rows.append(("nodef", (), True))
                continue
            out = gen.run_call(f, (v,), {}, [])
            selfs_ok = all(e[1] is inst for e in log)
            rows.append((out[0], tuple(e[0] for e in log), selfs_ok))
        return rows

    def report(disc, detail, cname):
        case = {"program": spec.json(), "class": cname}
        if acc is not None:
            acc.violation(case, disc, detail)
        else:
            found.append((disc, detail))

    for idx, (name, bases, kind, defs) in enumerate(spec.classes):
        chunk = chunks[idx]
        # every class statement is compiled at its own line offset inside one virtual file
        full_src += chunk
        linecache.cache[fname] = (len(full_src), None, full_src.splitlines(True), fname)
        code = compile("\n" * (lineno - 1) + chunk, fname, "exec")
        lineno += chunk.count("\n")
        try:
            exec(code, glb, glb)
        except Exception as e:  # noqa
            if eff.get(name) not in (None, "nodef") and not isinstance(eff.get(name), str):
                report("class-statement-refused", {"exc": core.short_exc(e)}, name)
            if acc is not None:
                acc.count("class_statement_errors")
            break
        # (i) no leaking: every class that already existed keeps exactly its behaviour
        for prev, old in tables.items():
            new = table(prev)
            if acc is not None:
                acc.count("evaluations", len(VALUES))
                acc.count("leak_checks")
            if new != old:
                diff = [(VALUES[i][0], list(a[:2]), list(b[:2])) for i, (a, b) in enumerate(zip(old, new)) if a != b]
                report("leak:earlier-class-changed", {"after_defining": name, "differences": diff[:3]}, prev)
        t = table(name)
        tables[name] = t
        if acc is not None:
            acc.count("evaluations", len(VALUES))
        # (iii) self is passed through unchanged
        for (vn, v), row in zip(VALUES, t):
            if not row[2]:
                report("self-not-the-instance", {"value": vn}, name)
        # (ii) merging, where the statement speaks
        e = eff.get(name)
        if e is None or e == "nodef":
            if acc is not None:
                acc.count("abstained_classes")
            continue
        tag, ms = e
        if acc is not None:
            acc.count("nontrivial")
        for (vn, v), row in zip(VALUES, t):
            if tag == "plain":
                continue
            kind_exp, trace_exp = sim(ms, v)
            if kind_exp == "rejected":
                kind_exp = "nomethod"
            got_kind = "nomethod" if row[0] == "sigerror" else row[0]
            if (got_kind, list(row[1])) != (kind_exp, trace_exp):
                report(f"merge:{kind_exp}->{got_kind}", {"value": vn, "expected": [kind_exp, trace_exp], "got": [got_kind, list(row[1])],
                                                          "effective": [[m["id"], m["types"]["x"], m["prio"]] for m in ms]}, name)
    independence(spec, acc, report)
    return found


def shard(shard, nshards, tier, seed):
    acc = core.Acc(PROP)
    for idx, spec in enumerate(programs(tier)):
        if idx % nshards != shard:
            continue
        acc.count("programs")
        run_program(spec, acc)
        if idx % (nshards * 53) == shard:
            acc.sample({"program": spec.json()})
        if acc.n["programs"] % 40 == 0:
            gen.purge_globals()
            del gen._FACTORY_GLOBALS[8:]
            for k in [k for k in linecache.cache if k.startswith("<vtgen:c17:")]:
                del linecache.cache[k]
    return acc


def replay(case):
    spec = Spec([(n, tuple(b), k, [tuple(d) for d in defs]) for n, b, k, defs in case["program"]])
    return run_program(spec, None)


def main(tier):
    t0 = time.time()
    merged = core.run_sharded(__name__, "shard", tier)
    return core.finish(
        PROP, tier, "model_checking", merged, t0,
        rule="class hierarchies of <= 3 (thorough 4) classes (chain, fork, two roots joined, diamond; roots use OvldBase, metaclass=OvldMC or "
             "no metaclass) plus the 5-class shape 'overloaded root and marked plain mixin, a pass-through child of each, joined' x every assignment of 0-2 definitions of f per class from a pool (int, str, list walker with recurse, "
             "priority wrapper with call_next, object fallback), each optionally marked extend_super x an instance of every class x "
             "every corpus value; (i) before/after differential: defining a class never changes the outcome table of an existing "
             "class; (ii) where the statement speaks (roots; subclasses whose first definition is marked) the logged chain equals "
             "R1-R5 on inherited + own methods; (iii) self is the instance in every entered body; (iv) independence: every class has the same "
             "outcome table whether or not the earlier classes that are not its ancestors were defined (the program is rebuilt with its "
             "ancestors only); a second 5-class shape: overloaded root, unmarked plain mixin, marked mixin, a class extending root + plain "
             "mixin and an independent sibling joining all three; non-trivial = classes judged by (ii)",
        assumptions=["abstains (only (i), (iii), (iv) apply) for: unmarked definitions in a subclass, classes without own definition under several "
                     "bases, a mark on a later definition only, two bases contributing different functions for one signature"],
    )
