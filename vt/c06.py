"""C06 -- resolution is deterministic and ignores irrelevant context.

Four exhaustive sub-checks (DESIGN section 5 C06):
  1 orders    E3: every answer sequence at the hooked set-iteration sites (tree search, deviation bounded)
  2 regorder  every permutation of the registration order of distinct signatures
  3 irrelevant every addition of a method that is not applicable to the call
  4 seeds     outcome table of a fixed corpus in separate processes with different hash seeds, no chooser
"""

import hashlib
import itertools
import json
import os
import re
import subprocess
import sys
import time

from . import annot, core, gen, spaces
from .gen import Hierarchy, posets
from .ref import RefOvld, StaticSem

PROP = "C06"

import ovld.utils as outils  # noqa: E402

PERMS = {k: list(itertools.permutations(range(k))) for k in range(1, 6)}
MAXK = 4


def norm(out):
    kind = out[0]
    payload = repr(out[2])
    if kind == "ambiguous":
        e = out[3]
        payload = repr(sorted(re.findall(r"^\* [^\[]*(\[.*?)  \(priority", str(e), re.M)))
    return (kind, out[1], payload)


# ----------------------------------------------------------------------------------------
# E3: choice-point explorer


class Chooser:
    def __init__(self, prefix):
        self.prefix = prefix
        self.points = []
        self.capped = 0

    def __call__(self, site, xs):
        base = list(gen.canonical_order(site, xs))
        k = len(base)
        if k < 2 or site == "candidate-set":
            return base  # (the list built from that set is ordered again at the site "candidates", which IS a choice point)
        if k > MAXK:
            self.capped += 1
            return base
        i = len(self.points)
        choice = self.prefix[i] if i < len(self.prefix) else 0
        self.points.append((site, k))
        return [base[j] for j in PERMS[k][choice]]


def explore_orders(run, bound, stats):
    """run() executes one (program, call) from scratch and returns its normalised outcome.
    Explores the tree of iteration-order answers with at most ``bound`` non-canonical answers."""
    outcomes = {}

    def go(prefix, expect_points, ndev):
        ch = Chooser(prefix)
        gen.install_chooser(ch)
        try:
            out = run()
        finally:
            gen.install_chooser()
        stats["executions"] += 1
        stats["capped_points"] += ch.capped
        if expect_points is not None and ch.points[: len(prefix)] != expect_points[: len(prefix)]:
            raise core.HarnessError(f"divergence while replaying prefix {prefix}: {ch.points} vs {expect_points}")
        outcomes.setdefault(out, tuple(prefix))
        stats["max_points"] = max(stats["max_points"], len(ch.points))
        if ndev >= bound:
            return
        for i in range(len(prefix), len(ch.points)):
            k = ch.points[i][1]
            base = list(prefix) + [0] * (i - len(prefix))
            for alt in range(1, len(PERMS[k])):
                go(tuple(base + [alt]), ch.points, ndev + 1)

    go((), None, 0)
    return outcomes


# ----------------------------------------------------------------------------------------
# special (non-static) annotation pool: unions, intersections, literals, dependent types

SPECIAL_CLASSES = None


def special_env():
    global SPECIAL_CLASSES
    if SPECIAL_CLASSES is None:
        h = Hierarchy.get(posets(3)[3]) if len(posets(3)) > 3 else Hierarchy.get(posets(3)[0])
        # K0, K1 unrelated, K2 below both when available: pick the poset with a common subclass
        for a in posets(3):
            hh = Hierarchy.get(a)
            if hh.subclass("K2", "K0") and hh.subclass("K2", "K1") and not hh.subclass("K1", "K0"):
                h = hh
        import typing

        ns = {"__module__": "vtgen", "tw": lambda self: 1}
        # structural twins: two distinct protocol classes that are subclasses of each other, and a class satisfying both
        extra = {"TP": typing.runtime_checkable(type("TP", (typing.Protocol,), dict(ns))),
                 "TP2": typing.runtime_checkable(type("TP2", (typing.Protocol,), dict(ns))),
                 "TW": type("TW", (), dict(ns))}
        SPECIAL_CLASSES = (h, dict(h.classes, **extra))
    return SPECIAL_CLASSES


SPECIAL_POOL = [
    ["union", "K0", "K1"], ["union", "K1", "K2"], ["union", "K0", "int"], ["inter", "K0", "K1"],
    "K0", "K1", "O", ["lit", 0], ["lit", 0, 1], ["lit", 1, 2], ["dep", "int", "p3"], ["dep", "int", "p6"], "int",
    ["dep", "K0", "qa"], ["dep", "K0", "qb"],
]
N_SPECIAL = len(SPECIAL_POOL)
SPECIAL_POOL += ["TP", "TP2"]  # only ever generated together (a tie that no order may break)


def special_values(h):
    class_vals = [(nm, h.instances[nm]) for nm in ("K0", "K1", "K2")]
    tagged = h.classes["K0"].__new__(h.classes["K0"])
    return class_vals + [("0", 0), ("1", 1), ("2", 2), ("'a'", "a"), ("TW()", special_env()[1]["TW"]())]


def special_programs(sizes):
    for L in sizes:
        for combo in itertools.combinations(range(N_SPECIAL), L):
            yield combo
    yield (N_SPECIAL, N_SPECIAL + 1)
    for j in range(N_SPECIAL):
        yield (j, N_SPECIAL, N_SPECIAL + 1)


def special_mspecs(combo):
    return [{"id": i, "shape": gen.SHAPES["x"], "types": {"x": SPECIAL_POOL[j]}, "prio": 0} for i, j in enumerate(combo)]


# ----------------------------------------------------------------------------------------
# sub-check 1: iteration orders


def sub_orders(acc, shard, nshards, tier):
    stats = {"executions": 0, "capped_points": 0, "max_points": 0}
    idx = 0
    H = lambda lo, hi: [Hierarchy.get(a) for n in range(lo, hi + 1) for a in posets(n)]  # noqa
    if tier == "quick":
        static = [("1pos,n<=3,L=3,prio", H(2, 3), ["x"], (0, 1), 3, 3, None), ("2pos,n=2,L=3", H(2, 2), ["xy"], (0,), 3, 3, 2),
                  ("zero-argument calls,n<=2,L<=3", H(1, 2), ["x?", "x?y?"], (0, 1), 2, 3, None)]
        sp_sizes, bound4 = (2, 3), 2
    else:
        static = [("1pos,n<=4,L<=3,prio", H(2, 4), ["x"], (0, 1), 2, 3, None), ("1pos,n<=3,L=4", H(3, 3), ["x"], (0,), 4, 4, 2),
                  ("2pos,n<=3,L=3", H(2, 3), ["xy"], (0,), 3, 3, 2),
                  ("zero-argument calls,n<=2,L<=3", H(1, 2), ["x?", "x?y?", "x*k?"], (0, 1), 2, 3, 2)]
        sp_sizes, bound4 = (2, 3, 4), 1  # (bound 2 on the 1365 four-method pools measured at > 1 h)
    import os as _os

    # two positions over the hierarchy with twin protocols (distinct classes that are subclasses of each other): one method
    # may dominate another through the second position while the first ones are merely "the same"
    static = static + [("2pos,twin protocols,L<=2", [gen.FlavouredHierarchy.get("twins")], ["xy"], (0,), 2, 2, 2)]
    for name, hiers, shapes, prios, lo, hi, bound in static:
        if _os.environ.get("VT_C06_SPACE") and _os.environ["VT_C06_SPACE"] not in name:
            continue  # (diagnostics only: time one space)
        for h in hiers:
            ds = spaces.descriptors(h.type_names, shapes, prios)
            calls = spaces.calls_for(h.type_names, shapes, getattr(h, "value_names", None))
            for descs in spaces.multisets(ds, lo, hi, distinct=True):
                idx += 1
                if idx % nshards != shard:
                    continue
                mspecs = spaces.mspecs_of(descs)
                gen.Program(h.classes, mspecs)  # warm-up (normaliser tables)
                for args_n, kw_n in calls:
                    if kw_n:
                        continue
                    args = tuple(h.instances[a] for a in args_n)

                    def run():
                        return norm(gen.Program(h.classes, mspecs).call(args, {}))

                    outs = explore_orders(run, bound if bound is not None else 99, stats)
                    judge_orders(acc, outs, {"sub": "orders", "space": name, "hier": h.spec(), "methods": mspecs,
                                             "call": list(args_n)})
    h, classes = special_env()
    vals = special_values(h)
    for combo in special_programs(sp_sizes) if not _os.environ.get("VT_C06_SPACE") else ():
        idx += 1
        if idx % nshards != shard:
            continue
        mspecs = special_mspecs(combo)
        try:
            gen.Program(classes, mspecs, annotate=annot.annotate).call((0,), {})
        except Exception:
            pass
        for vname, v in vals:
            def run():
                return norm(gen.Program(classes, mspecs, annotate=annot.annotate).call((v,), {}))

            outs = explore_orders(run, 99 if len(combo) <= 3 else bound4, stats)
            judge_orders(acc, outs, {"sub": "orders", "space": "special", "methods": mspecs, "call": [vname]})
    acc.count("order_executions", stats["executions"])
    acc.count("evaluations", stats["executions"])
    acc.count("order_points_capped", stats["capped_points"])
    acc.extra["max_choice_points_per_execution"] = stats["max_points"]


def judge_orders(acc, outs, case):
    acc.count("order_cases")
    if len(outs) > 1:
        kinds = sorted({o[0] for o in outs})
        acc.violation(case, "order-dependent:" + "/".join(kinds),
                      {"outcomes": [[list(o[:2]), list(p)] for o, p in outs.items()]})
    acc.count("nontrivial")
    if acc.n["order_cases"] % 400 == 1:
        acc.sample(dict(case, distinct_outcomes=len(outs)))


# ----------------------------------------------------------------------------------------
# sub-check 2: registration order


def sub_regorder(acc, shard, nshards, tier):
    idx = 0
    H = lambda lo, hi: [Hierarchy.get(a) for n in range(lo, hi + 1) for a in posets(n)]  # noqa
    if tier == "quick":
        static = [("1pos,n<=4,L=3,prio", H(1, 4), ["x"], (0, 1), 3, 3), ("2pos,n<=3,L=3", H(2, 3), ["xy"], (0,), 3, 3),
                  ("shapes,n<=1,L=3", H(1, 1), ["x", "xy", "xy?", "x*k", "x*k?", "x?"], (0,), 3, 3)]
        sp_sizes = (2, 3)
    else:
        static = [("1pos,n<=5,L=3,prio", H(1, 5), ["x"], (0, 1), 3, 3), ("1pos,n<=3,L=4,prio", H(1, 3), ["x"], (0, 1), 4, 4),
                  ("2pos,n<=3,L=3,prio", H(2, 3), ["xy"], (0, 1), 3, 3), ("2pos,n=4,L=3", H(4, 4), ["xy"], (0,), 3, 3),
                  ("shapes,n<=2,L=3", H(1, 2), ["x", "xy", "xy?", "x*k", "x*k?", "x?"], (0,), 3, 3)]
        sp_sizes = (2, 3, 4)
    for name, hiers, shapes, prios, lo, hi in static:
        for h in hiers:
            ds = spaces.descriptors(h.type_names, shapes, prios)
            calls = spaces.calls_for(h.type_names, shapes)
            for descs in spaces.multisets(ds, lo, hi, distinct=True):
                idx += 1
                if idx % nshards != shard:
                    continue
                mspecs = spaces.mspecs_of(descs)
                tables = {}
                for perm in itertools.permutations(range(len(mspecs))):
                    prog = gen.Program(h.classes, [mspecs[i] for i in perm])
                    for ci, (args_n, kw_n) in enumerate(calls):
                        out = norm(prog.call(tuple(h.instances[a] for a in args_n), {k: h.instances[v] for k, v in kw_n.items()}))
                        tables.setdefault(ci, {}).setdefault(out, perm)
                        acc.count("evaluations")
                for ci, outs in tables.items():
                    acc.count("regorder_cases")
                    if len(outs) > 1:
                        acc.violation({"sub": "regorder", "space": name, "hier": h.spec(), "methods": mspecs,
                                       "call": [list(calls[ci][0]), calls[ci][1]]},
                                      "registration-order-dependent:" + "/".join(sorted({o[0] for o in outs})),
                                      {"outcomes": [[list(o[:2]), list(p)] for o, p in outs.items()]})
                if idx % 300 == 0:
                    gen.purge_globals()
    h, classes = special_env()
    vals = special_values(h)
    for combo in special_programs(sp_sizes):
        idx += 1
        if idx % nshards != shard:
            continue
        mspecs = special_mspecs(combo)
        tables = {}
        for perm in itertools.permutations(range(len(mspecs))):
            prog = gen.Program(classes, [mspecs[i] for i in perm], annotate=annot.annotate)
            for vname, v in vals:
                out = norm(prog.call((v,), {}))
                tables.setdefault(vname, {}).setdefault(out, perm)
                acc.count("evaluations")
        for vname, outs in tables.items():
            acc.count("regorder_cases")
            if len(outs) > 1:
                acc.violation({"sub": "regorder", "space": "special", "methods": mspecs, "call": [vname]},
                              "registration-order-dependent:" + "/".join(sorted({o[0] for o in outs})),
                              {"outcomes": [[list(o[:2]), list(p)] for o, p in outs.items()]})


# ----------------------------------------------------------------------------------------
# sub-check 3: irrelevant methods


class NumWorld:
    """Builtin ABCs whose subclass relation is not even transitive: object and Hashable are subclasses of each other,
    Number and Integral are below object but unrelated to Hashable (numbers.Number.__hash__ is None)."""

    def __init__(self):
        import collections.abc
        import numbers

        self.classes = {"O": object, "H": collections.abc.Hashable, "N": numbers.Number, "I": numbers.Integral}
        self.instances = {"O": [], "H": "s", "N": 1.5, "I": 1}
        self.type_names = ["O", "H", "N", "I"]

    def spec(self):
        return {"numworld": True, "classes": self.type_names}


def sub_irrelevant(acc, shard, nshards, tier):
    idx = 0
    H = lambda lo, hi: [Hierarchy.get(a) for n in range(lo, hi + 1) for a in posets(n)]  # noqa
    S = ["x", "xy", "xy?", "x*k", "x*k?", "x?"]
    if tier == "quick":
        static = [("1pos,n<=4,L<=2,prio", H(2, 4), ["x"], (0, 1), 1, 2, None), ("2pos,n<=3,L<=2", H(2, 3), ["xy"], (0,), 1, 2, None),
                  ("shapes,n<=1,L<=2", H(1, 1), S, (0,), 1, 2, None),
                  ("other-arity-added,n=4: 1pos L=2 + xy / x*k", H(4, 4), ["x"], (0,), 2, 2, ["xy", "x*k"]),
                  ("other-arity-added,n=3: 2pos L=2 + x / xy*k", H(3, 3), ["xy"], (0,), 2, 2, ["x", "xy*k"])]
    else:
        static = [("1pos,n<=5,L<=2,prio", H(2, 5), ["x"], (0, 1), 1, 2, None), ("1pos,n<=4,L=3,prio", H(2, 4), ["x"], (0, 1), 3, 3, None),
                  ("2pos,n<=3,L<=2,prio", H(2, 3), ["xy"], (0, 1), 1, 2, None), ("2pos,n=4,L=2", H(4, 4), ["xy"], (0,), 2, 2, None),
                  ("shapes,n<=2,L<=2", H(1, 2), S, (0,), 1, 2, None),
                  ("other-arity-added,n<=4: 1pos L<=3 + xy / x*k / xy? / x*k?", H(3, 4), ["x"], (0, 1), 2, 3, ["xy", "x*k", "xy?", "x*k?"]),
                  ("other-arity-added,n=3: 2pos L=2 + x / xy*k / xyz", H(3, 3), ["xy"], (0,), 2, 2, ["x", "xy*k", "xyz"])]
    static = static + [("numworld: object / Hashable / Number / Integral, two 2-position methods + one 3-position method, + another 3-position method",
                        [NumWorld()], ["xy", "xyz"], (0,), 3, 3, ["xyz"])]
    for name, hiers, shapes, prios, lo, hi, add_shapes in static:
        for h in hiers:
            ds = spaces.descriptors(h.type_names, shapes, prios)
            calls = spaces.calls_for(h.type_names, shapes)
            ds_add = ds if add_shapes is None else spaces.descriptors(h.type_names, add_shapes, (0,))
            if name.startswith("numworld"):
                # the 3-position methods only vary in their first type (they are there to shift the levels at position 1)
                ds = [d for d in ds if d[0] == "xy" or d[1][1:] == ("O", "O")]
                ds_add = [d for d in ds_add if d[1][1:] == ("O", "O")]
                calls = [c for c in calls if len(c[0]) == 2]
            sem = StaticSem(h.classes)
            for descs in spaces.multisets(ds, lo, hi, distinct=True):
                if name.startswith("numworld") and sum(1 for d in descs if d[0] == "xyz") != 1:
                    continue
                idx += 1
                if idx % nshards != shard:
                    continue
                mspecs = spaces.mspecs_of(descs)
                base = gen.Program(h.classes, mspecs)
                base_out = []
                for args_n, kw_n in calls:
                    base_out.append(norm(base.call(tuple(h.instances[a] for a in args_n), {k: h.instances[v] for k, v in kw_n.items()})))
                for x in ds_add:
                    if x in descs:
                        continue
                    mx = spaces.mspecs_of(descs + (x,))
                    ref = RefOvld(mx, sem)
                    xm = ref.methods[-1]
                    prog = None
                    for ci, (args_n, kw_n) in enumerate(calls):
                        args = tuple(h.instances[a] for a in args_n)
                        kwargs = {k: h.instances[v] for k, v in kw_n.items()}
                        if ref.applicable(xm, args, kwargs):
                            continue
                        if base_out[ci][0] == "sigerror":
                            continue  # adding x changes which shapes the entry point accepts at all
                        if prog is None:
                            prog = gen.Program(h.classes, mx)
                        out = norm(prog.call(args, kwargs))
                        acc.count("evaluations")
                        acc.count("irrelevant_cases")
                        if out != base_out[ci] and not (base_out[ci][0] == "nomethod" and out[0] == "nomethod"):
                            acc.violation({"sub": "irrelevant", "space": name, "hier": h.spec(), "methods": mspecs,
                                           "added": mx[-1], "call": [list(args_n), kw_n]},
                                          f"non-applicable-method-changes-outcome:{base_out[ci][0]}->{out[0]}",
                                          {"without": list(base_out[ci][:2]), "with": list(out[:2])})
                if idx % 100 == 0:
                    gen.purge_globals()


# ----------------------------------------------------------------------------------------
# sub-check 4: separate processes, different hash seeds, no chooser


def seed_table():
    """Outcome table of the fixed corpus; run in a child process."""
    outils._verif_chooser = None
    rows = hashlib.sha1()
    n = 0
    table = []
    H = [Hierarchy.get(a) for k in range(1, 4) for a in posets(k)]
    for h in H:
        ds = spaces.descriptors(h.type_names, ["x"], (0, 1))
        calls = spaces.calls_for(h.type_names, ["x"])
        for descs in spaces.multisets(ds, 2, 3, distinct=True):
            mspecs = spaces.mspecs_of(descs)
            prog = gen.Program(h.classes, mspecs)
            for args_n, kw_n in calls:
                out = norm(prog.call(tuple(h.instances[a] for a in args_n), {}))
                table.append((h.spec()["bases"], descs, args_n, out[:2] + (out[2],)))
                n += 1
    h, classes = special_env()
    vals = special_values(h)
    for combo in special_programs((2, 3)):
        mspecs = special_mspecs(combo)
        prog = gen.Program(classes, mspecs, annotate=annot.annotate)
        for vname, v in vals:
            out = norm(prog.call((v,), {}))
            table.append(("special", combo, vname, out))
            n += 1
    return table


def sub_seeds(acc, tier):
    nproc = 3 if tier == "quick" else 8
    seed0 = core.env.seed()
    procs = []
    for i in range(nproc):
        e = dict(os.environ, PYTHONHASHSEED=str(1 + seed0 * 17 + i * 7919), VT_C06_CHILD="1")
        procs.append(subprocess.Popen([sys.executable, "-m", "vt.c06"], env=e, stdout=subprocess.PIPE, cwd=core.VERIF))
    tables = []
    for p in procs:
        out, _ = p.communicate()
        if p.returncode != 0:
            raise core.HarnessError("seed child failed")
        tables.append(json.loads(out))
    ref = tables[0]
    acc.count("seed_processes", nproc)
    acc.count("seed_corpus_rows", len(ref))
    acc.count("evaluations", len(ref) * nproc)
    for t in tables[1:]:
        if len(t) != len(ref):
            raise core.HarnessError("seed tables differ in length")
        for a, b in zip(ref, t):
            if a != b:
                acc.violation({"sub": "seeds", "row": a[:3]}, "differs-between-processes", {"a": a[3], "b": b[3]})


# ----------------------------------------------------------------------------------------


def shard(shard, nshards, tier, seed):
    acc = core.Acc(PROP)
    sub_orders(acc, shard, nshards, tier)
    sub_regorder(acc, shard, nshards, tier)
    sub_irrelevant(acc, shard, nshards, tier)
    gen.purge_globals()
    return acc


def replay(case):
    sub = case["sub"]
    from .c02 import _anc

    a = core.Acc(PROP)
    if sub == "seeds":
        sub_seeds(a, "quick")
    elif case.get("space") == "special":
        h, classes = special_env()
        vals = dict(special_values(h))
        mspecs = case["methods"]
        v = vals[case["call"][0]]
        if sub == "orders":
            stats = {"executions": 0, "capped_points": 0, "max_points": 0}
            outs = explore_orders(lambda: norm(gen.Program(classes, mspecs, annotate=annot.annotate).call((v,), {})), 99, stats)
        else:
            outs = {}
            for perm in itertools.permutations(range(len(mspecs))):
                outs.setdefault(norm(gen.Program(classes, [mspecs[i] for i in perm], annotate=annot.annotate).call((v,), {})), perm)
        if len(outs) > 1:
            return [("order-dependent", [o[:2] for o in outs])]
        return []
    else:
        if "flavoured" in case["hier"]:
            h = gen.FlavouredHierarchy.get(case["hier"]["flavoured"])
        elif case["hier"].get("numworld"):
            h = NumWorld()
        else:
            h = Hierarchy.get([frozenset(int(b[1:]) for b in _anc(case["hier"], c)) for c in case["hier"]["classes"]])
        mspecs = case["methods"]
        if sub == "orders":
            args = tuple(h.instances[x] for x in case["call"])
            stats = {"executions": 0, "capped_points": 0, "max_points": 0}
            outs = explore_orders(lambda: norm(gen.Program(h.classes, mspecs).call(args, {})), 99, stats)
            return [("order-dependent", [o[:2] for o in outs])] if len(outs) > 1 else []
        args = tuple(h.instances[x] for x in case["call"][0])
        kwargs = {k: h.instances[v] for k, v in case["call"][1].items()}
        if sub == "regorder":
            outs = {}
            for perm in itertools.permutations(range(len(mspecs))):
                outs.setdefault(norm(gen.Program(h.classes, [mspecs[i] for i in perm]).call(args, kwargs)), perm)
            return [("registration-order-dependent", [o[:2] for o in outs])] if len(outs) > 1 else []
        if sub == "irrelevant":
            a1 = norm(gen.Program(h.classes, mspecs).call(args, kwargs))
            a2 = norm(gen.Program(h.classes, mspecs + [case["added"]]).call(args, kwargs))
            return [("non-applicable-method-changes-outcome", [a1[:2], a2[:2]])] if a1 != a2 else []
    return [(d, None) for _, d in a.viol_ids]


def main(tier):
    t0 = time.time()
    merged = core.run_sharded(__name__, "shard", tier)
    acc = core.Acc(PROP)
    try:
        sub_seeds(acc, tier)
    except core.HarnessError as e:
        acc.errors.append(str(e))
    merged = core.merge([merged_to_dump(merged), acc.dump()])
    return core.finish(
        PROP, tier, "model_checking", merged, t0,
        rule="(1) for every (program, call) of the stated static spaces and of the union / intersection / Literal / Dependent "
             "pool programs: every sequence of iteration orders at the hooked set-iteration sites (full tree for <= 3 methods, "
             "<= 2 non-canonical answers beyond) must give one outcome; (2) every permutation of the registration order of "
             "distinct signatures; (3) every addition of a method the reference says is not applicable to the call; "
             "(4) outcome table of a fixed corpus recomputed in separate processes with other hash seeds and no chooser. "
             "non-trivial = (program, call) pairs explored under sub-check 1",
        assumptions=["hook H1 covers every order-sensitive set iteration (tripwire: sub-check 4)",
                     "choice points with more than 4 elements are answered canonically (counted in order_points_capped)"],
    )


def merged_to_dump(m):
    return {"n": dict(m["n"]), "hist": {k: dict(v) for k, v in m["hist"].items()}, "samples": m["samples"],
            "viol_ids": m["viol_ids"], "viol": m["viol"], "extra": m["extra"], "errors": m["errors"]}


if __name__ == "__main__" and os.environ.get("VT_C06_CHILD"):
    json.dump(seed_table(), sys.stdout, default=str)
