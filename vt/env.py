"""Binds the harness to the library under test.

Importing this module (before anything imports ``ovld``) makes ``ovld`` come from
``$OVLD_SRC`` (default ``/repo/src``, i.e. /repo's current working tree) with the
verification guard on.  MANIFEST commands never set OVLD_SRC; it exists for
detection demos on scratch copies.
"""

import os
import sys

os.environ["OVLD_VERIF"] = "1"
os.environ.setdefault("PYTHONDONTWRITEBYTECODE", "1")
sys.dont_write_bytecode = True

SRC = os.environ.get("OVLD_SRC", "/repo/src")
VERIF = os.path.dirname(os.path.dirname(os.path.abspath(__file__)))

if "ovld" in sys.modules:  # pragma: no cover
    raise RuntimeError("vt.env must be imported before ovld")
if sys.path[0:1] != [SRC]:
    sys.path.insert(0, SRC)

import ovld  # noqa: E402
import ovld.utils as _u  # noqa: E402

if not os.path.abspath(ovld.__file__).startswith(os.path.abspath(SRC) + os.sep):
    raise RuntimeError(f"ovld imported from {ovld.__file__}, expected under {SRC}")
if not getattr(_u, "_VERIF", False):
    raise RuntimeError("verification guard not active in ovld.utils (hook commit missing?)")


def seed():
    try:
        return int(os.environ.get("VERIF_SEED", "0"))
    except ValueError:
        return 0


def jobs():
    try:
        return max(1, int(os.environ.get("VERIF_JOBS", "16")))
    except ValueError:
        return 16
