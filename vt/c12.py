"""C12 -- the specificity order on types is mirror-symmetric and matches subclassing (E4, all pairs)."""

import itertools
import time

from . import core, universe as U

PROP = "C12"
PREF = {}

from ovld import typeorder  # noqa: E402
from ovld.mro import Order  # noqa: E402


def to(a, b):
    try:
        return typeorder(a, b)
    except Exception as e:  # noqa
        return "raises:" + type(e).__name__


def opposite(o):
    return o.opposite() if isinstance(o, Order) else o


def name(o):
    return o.name if isinstance(o, Order) else str(o)


def shard(shard, nshards, tier, seed):
    acc = core.Acc(PROP)
    uni = [u for u in U.universe(1 if tier == "quick" else 2) if not u[0].startswith("bad:")]
    n = len(uni)
    acc.extra["universe_size"] = n
    # the object that stands for a spec when it is a *member* of another type: its normal form
    PREF.clear()
    for lab, sp, _ in uni:
        k = core.canon(sp)
        if lab.startswith("norm:") or k not in PREF:
            PREF[k] = lab
    # all ordered pairs, sharded by row
    for i in range(shard, n, nshards):
        la, sa, a = uni[i]
        o = to(a, a)
        acc.count("evaluations")
        if o is not Order.SAME:
            acc.violation({"a": la}, "not-reflexive", {"typeorder": name(o)})
        for j in range(n):
            if j == i:
                continue
            lb, sb, b = uni[j]
            ab, ba = to(a, b), to(b, a)
            acc.count("evaluations")
            if i < j:
                acc.count("pairs")
                acc.h("order", name(ab))
                if ab is not Order.NONE and isinstance(ab, Order):
                    acc.count("nontrivial")
                if isinstance(ab, str) or isinstance(ba, str):
                    if ab != ba:
                        acc.violation({"a": la, "b": lb}, "raises-in-one-direction", {"ab": name(ab), "ba": name(ba)})
                    else:
                        acc.violation({"a": la, "b": lb}, "raises", {"ab": name(ab)})
                elif opposite(ab) is not ba:
                    acc.violation({"a": la, "b": lb}, f"not-mirror-symmetric:{name(ab)}/{name(ba)}", {"ab": name(ab), "ba": name(ba)})
                if len(acc.samples) < 3 and (i * 31 + j) % 997 == 0:
                    acc.sample({"a": la, "b": lb, "typeorder": name(ab), "reverse": name(ba)})
            clause(acc, la, sa, a, lb, sb, b, ab)
    if shard == 0:
        class_fragment(acc)
    return acc


def clause(acc, la, sa, a, lb, sb, b, ab):
    """The four named clauses, on the sub-families they name (a is the constructed type)."""
    if not la.startswith("raw:") and not la.startswith("norm:"):
        return
    if isinstance(sa, str):
        return
    op = sa[0]
    exp = None
    why = None
    member = sb in sa[1:] and PREF.get(core.canon(sb)) == lb
    if op in ("union", "ounion") and member:
        exp, why = Order.MORE, "union-vs-member"
    elif op == "inter" and member:
        exp, why = Order.LESS, "intersection-vs-member"
    elif op == "dep" and sb == sa[1] and PREF.get(core.canon(sb)) == lb:
        exp, why = Order.LESS, "dependent-vs-bound"
    elif op == "lit" and isinstance(sb, str) and lb.startswith("raw:") and sb in ("int", "str", "O") and \
            all(type(v).__name__ == sb or sb == "O" for v in sa[1:]):
        exp, why = Order.LESS, "literal-vs-bound"
    elif op == "tuple" and sb == "tuple?":
        pass
    elif op == "gen" and isinstance(sb, str) and lb.startswith("raw:") and sb == sa[1]:
        exp, why = Order.LESS, "generic-vs-origin"
    elif op == "gen" and not isinstance(sb, str) and sb[0] == "gen" and sb[1] == sa[1] and len(sa) == len(sb) \
            and la.startswith("raw:") and lb.startswith("raw:") and all(isinstance(x, str) for x in sa[2:] + sb[2:]):
        # argument-wise: merge of the class orders of the arguments
        ords = [to(U.CLASSES[x], U.CLASSES[y]) for x, y in zip(sa[2:], sb[2:])]
        exp, why = Order.merge(ords), "generic-argument-wise"
    if exp is not None:
        acc.count("clause_checks")
        acc.h("clauses", why)
        if ab is not exp:
            acc.violation({"a": la, "b": lb}, f"clause:{why}", {"expected": exp.name, "got": name(ab)})


def class_fragment(acc):
    """Plain classes: order == issubclass; hence transitive (all triples)."""
    names = U.PLAIN
    for x, y in itertools.product(names, repeat=2):
        a, b = U.CLASSES[x], U.CLASSES[y]
        o = to(a, b)
        acc.count("evaluations")
        acc.count("clause_checks")
        sx, sy = issubclass(a, b), issubclass(b, a)
        exp = Order.SAME if a is b else Order.LESS if sx and not sy else Order.MORE if sy and not sx else Order.SAME if sx and sy else Order.NONE
        if o is not exp:
            acc.violation({"a": x, "b": y}, "clause:classes-vs-issubclass", {"expected": exp.name, "got": name(o)})
    le = lambda x, y: to(U.CLASSES[x], U.CLASSES[y]) in (Order.LESS, Order.SAME)  # noqa
    for x, y, z in itertools.product(names, repeat=3):
        acc.count("evaluations")
        if le(x, y) and le(y, z) and not le(x, z):
            acc.violation({"a": x, "b": y, "c": z}, "clause:classes-not-transitive", {})
    # tuple[...] (a value-dependent type whose bound is tuple) against plain tuple
    for lab, s, t in U.universe(1):
        if not isinstance(s, str) and s[0] == "tuple" and lab.startswith("norm:"):
            acc.count("clause_checks")
            acc.h("clauses", "dependent-vs-bound")
            o = to(t, tuple)
            if o is not Order.LESS:
                acc.violation({"a": lab, "b": "raw:tuple"}, "clause:dependent-vs-bound", {"expected": "LESS", "got": name(o)})


def replay(case):
    uni = {u[0]: u for u in U.universe(2)}
    out = []
    if "c" in case:
        return [("transitivity", case)]
    la, lb = case["a"], case.get("b")
    if la in U.CLASSES:
        a = U.CLASSES[la]
        b = U.CLASSES[lb]
        o = to(a, b)
        sx, sy = issubclass(a, b), issubclass(b, a)
        exp = Order.SAME if a is b else Order.LESS if sx and not sy else Order.MORE if sy and not sx else Order.NONE
        return [] if o is exp else [("classes-vs-issubclass", name(o))]
    a = uni[la][2]
    if lb is None:
        o = to(a, a)
        return [] if o is Order.SAME else [("not-reflexive", name(o))]
    b = tuple if lb == "raw:tuple" else uni[lb][2]
    ab, ba = to(a, b), to(b, a)
    if isinstance(ab, str) or isinstance(ba, str) or opposite(ab) is not ba:
        out.append(("asymmetric-or-raises", (name(ab), name(ba))))
    acc = core.Acc(PROP)
    sb = "tuple" if lb == "raw:tuple" else uni[lb][1]
    clause(acc, la, uni[la][1], a, lb, sb, b, ab)
    if lb == "raw:tuple" and ab is not Order.LESS:
        out.append(("dependent-vs-bound", name(ab)))
    out += [(d, None) for _, d in acc.viol_ids]
    return out


def main(tier):
    t0 = time.time()
    merged = core.run_sharded(__name__, "shard", tier)
    return core.finish(
        PROP, tier, "model_checking", merged, t0,
        rule="all ordered pairs of the type universe U(d) (d = 1 quick, 2 thorough): closure of list / dict / Iterable / type / Union "
             "(both member orders) / Intersection / Exactly / StrictSubclass / HasMethod / Literal / Dependent / tuple over a "
             "hierarchy with a chain, a diamond, an unrelated class, an ABC with a virtual subclass, a protocol, int, str; raw "
             "annotations and their normal forms; checked: reflexivity, mirror symmetry, no exception, and the named clauses on "
             "the sub-families they name (classes = issubclass incl. all triples for transitivity; generic vs origin and "
             "argument-wise; union / intersection vs member; dependent vs bound); non-trivial = unordered pairs that are ordered",
        assumptions=["nothing beyond the statement is demanded (no transitivity outside the class fragment)"],
        nontrivial_key="nontrivial",
    )
