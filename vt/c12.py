"""C12 -- the specificity order on types is mirror-symmetric and matches subclassing (E4, all pairs)."""

import itertools
import time

from . import core, universe as U

PROP = "C12"
PREF = {}

from ovld import typeorder  # noqa: E402
from ovld.mro import Order  # noqa: E402


def to(a, b):
    try:
        return typeorder(a, b)
    except Exception as e:  # noqa
        return "raises:" + type(e).__name__


def opposite(o):
    return o.opposite() if isinstance(o, Order) else o


def name(o):
    return o.name if isinstance(o, Order) else str(o)


def shard(shard, nshards, tier, seed):
    acc = core.Acc(PROP)
    uni = [u for u in U.universe(1 if tier == "quick" else 2) if not u[0].startswith("bad:")]
    n = len(uni)
    acc.extra["universe_size"] = n
    # the object that stands for a spec when it is a *member* of another type: its normal form
    PREF.clear()
    for lab, sp, _ in uni:
        k = core.canon(sp)
        if lab.startswith("norm:") or k not in PREF:
            PREF[k] = lab
    # all ordered pairs, sharded by row
    for i in range(shard, n, nshards):
        la, sa, a = uni[i]
        o = to(a, a)
        acc.count("evaluations")
        if o is not Order.SAME:
            acc.violation({"a": la}, "not-reflexive", {"typeorder": name(o)})
        for j in range(n):
            if j == i:
                continue
            lb, sb, b = uni[j]
            ab, ba = to(a, b), to(b, a)
            acc.count("evaluations")
            if i < j:
                acc.count("pairs")
                acc.h("order", name(ab))
                if ab is not Order.NONE and isinstance(ab, Order):
                    acc.count("nontrivial")
                if isinstance(ab, str) or isinstance(ba, str):
                    if ab != ba:
                        acc.violation({"a": la, "b": lb}, "raises-in-one-direction", {"ab": name(ab), "ba": name(ba)})
                    else:
                        acc.violation({"a": la, "b": lb}, "raises", {"ab": name(ab)})
                elif opposite(ab) is not ba:
                    acc.violation({"a": la, "b": lb}, f"not-mirror-symmetric:{name(ab)}/{name(ba)}", {"ab": name(ab), "ba": name(ba)})
                if len(acc.samples) < 3 and (i * 31 + j) % 997 == 0:
                    acc.sample({"a": la, "b": lb, "typeorder": name(ab), "reverse": name(ba)})
            clause(acc, la, sa, a, lb, sb, b, ab)
    if shard == 0:
        class_fragment(acc)
    for idx, (warm, seq) in enumerate(relation_scenarios(tier)):
        if idx % nshards == shard:
            run_relation(warm, seq, acc, tier)
    return acc


def clause(acc, la, sa, a, lb, sb, b, ab):
    """The four named clauses, on the sub-families they name (a is the constructed type)."""
    if not la.startswith("raw:") and not la.startswith("norm:"):
        return
    if isinstance(sa, str):
        return
    op = sa[0]
    exp = None
    why = None
    member = sb in sa[1:] and PREF.get(core.canon(sb)) == lb
    if op in ("union", "ounion") and member:
        exp, why = Order.MORE, "union-vs-member"
    elif op == "inter" and member:
        exp, why = Order.LESS, "intersection-vs-member"
    elif op == "dep" and sb == sa[1] and PREF.get(core.canon(sb)) == lb:
        exp, why = Order.LESS, "dependent-vs-bound"
    elif op == "lit" and isinstance(sb, str) and lb.startswith("raw:") and sb in ("int", "str", "O") and \
            all(type(v).__name__ == sb or sb == "O" for v in sa[1:]):
        exp, why = Order.LESS, "literal-vs-bound"
    elif op == "tgen" and la.startswith("raw:") and lb.startswith("raw:") and not isinstance(sb, str) and (
            (sa[1] != "type" and sb[0] == "gen" and sb[1:] == sa[1:]) or (sa[1] == "type" and sb[0] == "type" and sb[1:] == sa[2:])):
        exp, why = Order.SAME, "two-spellings-of-one-generic"
    elif op == "tuple" and sb == "tuple?":
        pass
    elif op == "gen" and isinstance(sb, str) and lb.startswith("raw:") and sb == sa[1]:
        exp, why = Order.LESS, "generic-vs-origin"
    elif op == "gen" and not isinstance(sb, str) and sb[0] == "gen" and sb[1] == sa[1] and len(sa) == len(sb) \
            and la.startswith("raw:") and lb.startswith("raw:") and all(isinstance(x, str) for x in sa[2:] + sb[2:]):
        # argument-wise: merge of the class orders of the arguments
        ords = [to(U.CLASSES[x], U.CLASSES[y]) for x, y in zip(sa[2:], sb[2:])]
        exp, why = Order.merge(ords), "generic-argument-wise"
    if exp is not None:
        acc.count("clause_checks")
        acc.h("clauses", why)
        if ab is not exp:
            acc.violation({"a": la, "b": lb}, f"clause:{why}", {"expected": exp.name, "got": name(ab)})


def class_fragment(acc):
    """Plain classes: order == issubclass; hence transitive (all triples)."""
    names = U.PLAIN
    for x, y in itertools.product(names, repeat=2):
        a, b = U.CLASSES[x], U.CLASSES[y]
        o = to(a, b)
        acc.count("evaluations")
        acc.count("clause_checks")
        sx, sy = issubclass(a, b), issubclass(b, a)
        exp = Order.SAME if a is b else Order.LESS if sx and not sy else Order.MORE if sy and not sx else Order.SAME if sx and sy else Order.NONE
        if o is not exp:
            acc.violation({"a": x, "b": y}, "clause:classes-vs-issubclass", {"expected": exp.name, "got": name(o)})
    le = lambda x, y: to(U.CLASSES[x], U.CLASSES[y]) in (Order.LESS, Order.SAME)  # noqa
    for x, y, z in itertools.product(names, repeat=3):
        acc.count("evaluations")
        if le(x, y) and le(y, z) and not le(x, z):
            acc.violation({"a": x, "b": y, "c": z}, "clause:classes-not-transitive", {})
    # tuple[...] (a value-dependent type whose bound is tuple) against plain tuple
    for lab, s, t in U.universe(1):
        if not isinstance(s, str) and s[0] == "tuple" and lab.startswith("norm:"):
            acc.count("clause_checks")
            acc.h("clauses", "dependent-vs-bound")
            o = to(t, tuple)
            if o is not Order.LESS:
                acc.violation({"a": lab, "b": "raw:tuple"}, "clause:dependent-vs-bound", {"expected": "LESS", "got": name(o)})


# ----------------------------------------------------------------------------------------
# the subclass relation itself changes between comparisons (virtual subclasses registered on an
# ABC, a class starting to satisfy a runtime-checkable protocol): the order must follow it


def _fresh_world():
    import abc
    import typing

    class Ab(abc.ABC):
        pass

    class Ab2(Ab):
        pass

    @typing.runtime_checkable
    class Pr(typing.Protocol):
        def pm(self): ...

    class K:
        pass

    class K2(K):
        pass

    class Z:
        pass

    classes = {"Ab": Ab, "Ab2": Ab2, "Pr": Pr, "K": K, "K2": K2, "Z": Z}
    events = {
        "Ab.register(K)": lambda: Ab.register(K),
        "Ab.register(K2)": lambda: Ab.register(K2),
        "Ab2.register(Z)": lambda: Ab2.register(Z),
        "K.pm=...": lambda: setattr(K, "pm", lambda self: 1),
        "Z.pm=...": lambda: setattr(Z, "pm", lambda self: 1),
    }
    return classes, events


REL_NAMES = ["Ab", "Ab2", "Pr", "K", "K2", "Z"]
REL_EVENTS = ["Ab.register(K)", "Ab.register(K2)", "Ab2.register(Z)", "K.pm=...", "Z.pm=..."]
REL_WRAPS = ["plain", "list", "type", "dict-value", "union-int"]


def _wrap(kind, c):
    from ovld.types import Union as OvUnion

    return {"plain": lambda: c, "list": lambda: list[c], "type": lambda: type[c], "dict-value": lambda: dict[str, c],
            "union-int": lambda: OvUnion[c, int]}[kind]()


def _class_expect(a, b):
    sx, sy = issubclass(a, b), issubclass(b, a)
    return Order.SAME if a is b or (sx and sy) else Order.LESS if sx else Order.MORE if sy else Order.NONE


def relation_scenarios(tier):
    """(warm-up comparison or None / 'all', sequence of events)"""
    warm = [None, "all"] + [(x, y, w) for x in REL_NAMES for y in REL_NAMES if x != y for w in (("plain",) if tier == "quick" else REL_WRAPS)]
    seqs = [(e,) for e in REL_EVENTS] + [(e, f) for e in REL_EVENTS for f in REL_EVENTS if e != f]
    for w in warm:
        for sq in seqs:
            yield w, sq


def run_relation(warm, seq, acc, tier="quick"):
    classes, events = _fresh_world()
    found = []

    def compare_all(stage):
        for x in REL_NAMES:
            for y in REL_NAMES:
                exp = _class_expect(classes[x], classes[y])
                for w in REL_WRAPS:
                    if w == "union-int" and x == y:
                        continue
                    a, b = _wrap(w, classes[x]), _wrap(w, classes[y])
                    ab, ba = to(a, b), to(b, a)
                    if acc is not None:
                        acc.count("evaluations")
                        acc.count("clause_checks")
                        if exp is not Order.NONE and stage:
                            acc.count("nontrivial")
                    disc = None
                    if isinstance(ab, str) or isinstance(ba, str) or opposite(ab) is not ba:
                        disc = "relation-change:not-mirror-symmetric"
                    elif w in ("plain", "list", "type", "dict-value") and ab is not exp:
                        # plain classes: the order is subclassing; list / type / dict compare argument-wise
                        disc = "relation-change:classes-vs-issubclass" if w == "plain" else "relation-change:generic-argument-wise"
                    if disc:
                        found.append((disc, {"a": x, "b": y, "wrap": w, "stage": stage, "expected": exp.name, "got": name(ab), "reverse": name(ba)}))

    if warm == "all":
        compare_all(0)
    elif warm is not None:
        x, y, w = warm
        to(_wrap(w, classes[x]), _wrap(w, classes[y]))
    for k, e in enumerate(seq):
        events[e]()
        compare_all(k + 1)
    if acc is not None:
        acc.count("relation_scenarios")
        seen = set()
        for disc, detail in found:
            if (disc, detail["a"], detail["b"], detail["wrap"]) in seen:
                continue
            seen.add((disc, detail["a"], detail["b"], detail["wrap"]))
            acc.violation({"relation": True, "warm": list(warm) if isinstance(warm, tuple) else warm, "events": list(seq),
                           "a": detail["a"], "b": detail["b"], "wrap": detail["wrap"]}, disc, detail)
    return found


def replay(case):
    if case.get("relation"):
        w = case["warm"]
        found = run_relation(tuple(w) if isinstance(w, list) else w, tuple(case["events"]), None)
        return [f for f in found if (f[1]["a"], f[1]["b"], f[1]["wrap"]) == (case["a"], case["b"], case["wrap"])]
    uni = {u[0]: u for u in U.universe(2)}
    out = []
    if "c" in case:
        return [("transitivity", case)]
    la, lb = case["a"], case.get("b")
    if la in U.CLASSES:
        a = U.CLASSES[la]
        b = U.CLASSES[lb]
        o = to(a, b)
        sx, sy = issubclass(a, b), issubclass(b, a)
        exp = Order.SAME if a is b else Order.LESS if sx and not sy else Order.MORE if sy and not sx else Order.NONE
        return [] if o is exp else [("classes-vs-issubclass", name(o))]
    a = uni[la][2]
    if lb is None:
        o = to(a, a)
        return [] if o is Order.SAME else [("not-reflexive", name(o))]
    b = tuple if lb == "raw:tuple" else uni[lb][2]
    ab, ba = to(a, b), to(b, a)
    if isinstance(ab, str) or isinstance(ba, str) or opposite(ab) is not ba:
        out.append(("asymmetric-or-raises", (name(ab), name(ba))))
    acc = core.Acc(PROP)
    sb = "tuple" if lb == "raw:tuple" else uni[lb][1]
    clause(acc, la, uni[la][1], a, lb, sb, b, ab)
    if lb == "raw:tuple" and ab is not Order.LESS:
        out.append(("dependent-vs-bound", name(ab)))
    out += [(d, None) for _, d in acc.viol_ids]
    return out


def main(tier):
    t0 = time.time()
    merged = core.run_sharded(__name__, "shard", tier)
    return core.finish(
        PROP, tier, "model_checking", merged, t0,
        rule="all ordered pairs of the type universe U(d) (d = 1 quick, 2 thorough): closure of list / dict / Iterable / type / Union "
             "(both member orders) / Intersection / Exactly / StrictSubclass / HasMethod / Literal / Dependent / tuple over a "
             "hierarchy with a chain, a diamond, an unrelated class, an ABC with a virtual subclass, a protocol, int, str; raw "
             "annotations and their normal forms; checked: reflexivity, mirror symmetry, no exception, and the named clauses on "
             "the sub-families they name (classes = issubclass incl. all triples for transitivity; generic vs origin and "
             "argument-wise; union / intersection vs member; dependent vs bound; the typing and the builtin spelling of one generic are the same); plus histories in which the subclass relation "
             "itself changes between comparisons (a fresh world of 6 classes: ABC, sub-ABC, runtime protocol, chain of 2, unrelated; "
             "events = register a virtual subclass / a class gains the protocol's method; every sequence of 1-2 distinct events; "
             "before them no comparison, one comparison (every ordered pair; thorough: in every wrapping) or all; after every "
             "event all ordered pairs plain and inside list[...] / type[...] / dict[str, ...] must equal issubclass at that "
             "moment, and stay mirror-symmetric inside a Union); non-trivial = unordered pairs that are ordered",
        assumptions=["nothing beyond the statement is demanded (no transitivity outside the class fragment)"],
        nontrivial_key="nontrivial",
    )
