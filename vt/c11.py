"""C11 -- Literal and the built-in value types match exactly their documented values (E1)."""

import itertools
import linecache
import time

from . import annot, core, gen
from .ref import RefOvld, kinds_match

PROP = "C11"

CLASSES = {}

LIT = [["lit", 0], ["lit", 0, 1], ["lit", 0, 1, 2], ["lit", "a"], ["lit", "a", "b"], ["lit", 0, "a"], ["lit", "a", 0], ["lit", 0, "a", 1],
       ["lit", 0.0], ["lit", 1.0, 0.0]]
TUP = [["tuple"], ["tuple", "int"], ["tuple", "str"], ["tuple", "int", "str"], ["tuple", ["lit", 0]], ["tuple", ["lit", "z"], "int"], ["tuple", "int", "int"]]
GEN = [["gen", "list", "int"], ["gen", "list", "str"], ["gen", "Sequence", "int"], ["gen", "Collection", "int"], ["gen", "set", "int"],
       ["gen", "Mapping", "str", "int"], ["gen", "dict", "str", "int"], ["gen", "dict", "int", "int"]]
STR = [["regexp", "^a"], ["startswith", "a"], ["endswith", "z"], ["haskey", "k"], ["haskey", "k", "j"]]
# element types that are themselves value types; value types combined with plain classes
NESTED = [["tuple", ["startswith", "a"]], ["tuple", ["lit", 0], ["endswith", "a"]], ["tuple", ["tuple", "int"], "str"], ["tuple", ["gen", "list", "int"]],
          ["gen", "list", ["lit", 0]], ["gen", "list", ["lit", "a", 0]], ["gen", "list", ["startswith", "a"]], ["gen", "set", ["lit", 0]],
          ["gen", "dict", "str", ["lit", 1]], ["gen", "Mapping", ["startswith", "k"], "int"], ["gen", "list", ["tuple", "int"]],
          ["ounion", "int", ["startswith", "a"]], ["ounion", ["lit", "a"], "float"], ["inter", "str", ["endswith", "z"]],
          ["inter", ["regexp", "^a"], "str"], ["ounion", ["tuple", "int"], ["gen", "list", "int"]], ["inter", ["gen", "dict", "str", "int"], ["haskey", "k"]],
          # the value-dependent member written BEFORE a plain member that accepts values outside its bound
          ["ounion", ["startswith", "a"], "int"], ["ounion", ["regexp", "^a"], "int"], ["ounion", ["endswith", "z"], "O"],
          ["ounion", ["startswith", "a"], ["inter", "int", ["lit", 7]]], ["ounion", ["haskey", "k"], "str"],
          # combinations of combinations in which NO direct member is value-dependent
          ["ounion", "int", ["inter", "str", ["startswith", "a"]]], ["inter", "str", ["ounion", ["startswith", "a"], ["endswith", "z"]]],
          ["ounion", "float", ["inter", ["regexp", "^a"], ["endswith", "z"]]], ["ounion", "int", ["ounion", "float", ["lit", "a"]]],
          ["inter", "O", ["inter", "str", ["endswith", "z"]]], ["ounion", ["inter", "str", ["startswith", "a"]], ["inter", "int", ["lit", 7]]]]


def combos(tier):
    sel = [["lit", 0], ["lit", "a", "b"], ["startswith", "a"], ["endswith", "z"], ["regexp", "^a"], ["haskey", "k"], ["tuple", "int"],
           ["gen", "list", "int"], ["lit", 7]]
    out = []
    for a, b in itertools.combinations(sel, 2):
        out.append(["ounion", a, b])
        out.append(["inter", a, b])
    if tier != "quick":
        for a, b in itertools.combinations(sel[:6], 2):
            for c in sel[2:5]:
                out.append(["ounion", ["inter", a, b], c])
                out.append(["inter", ["ounion", a, b], c])
    return out


CORPUS = [
    ("0", 0), ("1", 1), ("2", 2), ("3", 3), ("7", 7), ("10", 10), ("0.0", 0.0), ("1.0", 1.0), ("10.5", 10.5), ("'a'", "a"), ("'b'", "b"), ("'ab'", "ab"), ("'az'", "az"), ("'z'", "z"),
    ("'zz'", "zz"), ("''", ""), ("'c1'", "c1"), ("1.5", 1.5), ("()", ()), ("(0,)", (0,)), ("('z',)", ("z",)), ("(0,'a')", (0, "a")),
    ("('z',1)", ("z", 1)), ("(0,0)", (0, 0)), ("('a',)", ("a",)), ("(1,2,3)", (1, 2, 3)), ("[]", []), ("[0]", [0]), ("['a']", ["a"]),
    ("[0,'a']", [0, "a"]), ("['a',0]", ["a", 0]), ("[(0,)]", [(0,)]), ("[[0]]", [[0]]), ("([0],)", ([0],)), ("((0,),'a')", ((0,), "a")), ("(0,'za')", (0, "za")),
    ("{'k':'v'}", {"k": "v"}), ("{'a':1,'k':2}", {"a": 1, "k": 2}), ("set()", set()), ("{0}", {0}), ("{'a'}", {"a"}), ("{}", {}), ("{'k':1}", {"k": 1}),
    ("{'k':1,'j':2}", {"k": 1, "j": 2}), ("{'a':1}", {"a": 1}), ("{1:1}", {1: 1}), ("{'a':'b'}", {"a": "b"}), ("None", None),
]
VALUES = dict(CORPUS)


def companions(j, vtype, overlap):
    vals = {"int": [10, 11, 12, 13, 14], "str": ["c1", "c2", "c3", "c4", "c5"], "float": [10.5, 11.5, 12.5, 13.5, 14.5]}[vtype]
    vals = vals[:j]
    if overlap and j:
        # for float: a value that is == to the int 0 but of another type (no subclass relation between int and float)
        vals[0] = {"int": 0, "str": "a", "float": 0.0}[vtype]
    return [["lit", v] for v in vals]


def programs(tier):
    types = LIT + TUP + GEN + STR + NESTED + combos(tier)
    for T in types:
        for j in range(6):
            for vtype in ("int", "str", "float"):
                for overlap in (False, True):
                    if overlap and j == 0:
                        continue
                    comps = companions(j, vtype, overlap)
                    for pos2 in (False, True, "first", "others"):
                        if pos2 is True and j not in (0, 2, 5):
                            continue
                        # a second value-dependent position on the method under test only / on the companions only
                        # (the lookup-table strategy needs >= 4 keyed methods: j >= 3)
                        if pos2 in ("first", "others") and (j not in (2, 3, 5) or (tier == "quick" and T not in LIT + STR[:2])):
                            continue
                        orders = [None]
                        if j <= 2 and not pos2:
                            orders = list(itertools.permutations(range(j + 1)))
                        for order in orders:
                            yield T, comps, pos2, order


def mspecs_for(T, comps, pos2, order):
    shape = gen.SHAPES["xy"] if pos2 else gen.SHAPES["x"]

    def types(t, role):
        if not pos2:
            return {"x": t}
        if pos2 is True:
            return {"x": t, "y": ["lit", 5]}
        second = {"first": {"T": ["lit", 5], "comp": "int", "fb": "O"}, "others": {"T": "int", "comp": ["lit", 5], "fb": "O"}}[pos2][role]
        return {"x": t, "y": second}

    ms = [{"id": 0, "shape": shape, "types": types(T, "T"), "prio": 0}]
    for i, c in enumerate(comps):
        ms.append({"id": i + 1, "shape": shape, "types": types(c, "comp"), "prio": 0})
    if order is not None:
        ms = [ms[i] for i in order]
    ms.append({"id": 99, "shape": shape, "types": types("O", "fb"), "prio": -1})
    return ms


def second_values(pos2):
    return [None] if not pos2 else [5] if pos2 is True else [5, 6]


def check_program(T, comps, pos2, order, acc, only=None):
    mspecs = mspecs_for(T, comps, pos2, order)
    sem = annot.Sem(CLASSES)
    ref = RefOvld(mspecs, sem)
    found = []
    case0 = {"type": T, "companions": comps, "pos2": pos2, "order": list(order) if order else None}
    try:
        prog = gen.Program(CLASSES, mspecs, annotate=annot.annotate)
        tobj = annot._ntype(T, CLASSES)
    except Exception as e:  # noqa
        if acc is not None:
            acc.violation(dict(case0, value=None), "build-refused", {"exc": core.short_exc(e)})
            return []
        return [("build-refused", core.short_exc(e))]
    for (vn, v), y in itertools.product(CORPUS, second_values(pos2)):
        if only is not None and [vn, y] != only:
            continue
        args = (v, y) if pos2 else (v,)
        # the property's own criterion: isinstance(value, type) must agree with the documented meaning
        doc = sem.instance(v, T)
        disc = None
        detail = {}
        try:
            lib_inst = isinstance(v, tobj)
        except Exception as e:  # noqa
            lib_inst = "raises:" + type(e).__name__
        if lib_inst != doc:
            disc, detail = "isinstance-vs-documented-meaning", {"documented": doc, "isinstance": lib_inst}
        try:
            rkind, rm = ref.decide(args, {})
        except annot.Abstain:
            rkind = None
            if acc is not None:
                acc.count("abstained_order")
        out = prog.call(args, {})
        okind, trace = out[0], out[1]
        if acc is not None:
            acc.count("evaluations")
            if doc:
                acc.count("nontrivial")
            acc.h("expected", str(rkind))
        if rkind is None:
            # order between T and a companion is not specified: only applicability is judged
            if okind == "ret" and ((trace[0] == 0) and not doc):
                disc, detail = "ran-on-non-instance", {"trace": list(trace)}
            elif okind.startswith("exc"):
                disc, detail = f"applicable->{okind}", {"exc": out[2]}
        elif not kinds_match(rkind, okind):
            disc = disc or f"{rkind}->{okind}"
            detail.update(expected=rkind, expected_mid=rm.id if rkind == "ret" else None, observed=okind, trace=list(trace),
                          exc=out[2] if okind.startswith("exc") else None)
        elif rkind == "ret" and trace != (rm.id,):
            disc = disc or "ret:wrong-method"
            detail.update(expected_mid=rm.id, trace=list(trace))
        if disc:
            case = dict(case0, value=vn, second=y)
            if acc is not None:
                acc.violation(case, disc, detail)
            else:
                found.append((disc, detail))
    return found


# ----------------------------------------------------------------------------------------
# literal values whose repr() is not a Python literal that evaluates back to them (the generated checking code must
# not depend on that): enum members, infinities, strings full of quotes; probed with the value itself and with
# clearly different values only (never with equal values of another type)


def exotic_cases():
    import enum

    class Colour(enum.IntEnum):
        RED = 1
        BLUE = 2

    class Mode(enum.Enum):
        ON = "on"
        OFF = "off"

    inf = float("inf")
    vals = [("IntEnum member", Colour.RED, [Colour.BLUE, 7, "x"]), ("Enum member", Mode.ON, [Mode.OFF, "x", 3]),
            ("inf", inf, [1.5, -inf, "x"]), ("-inf", -inf, [inf, 0.5, "x"]), ("quotes", "it's \"q\"\n\\", ["it's", "x", 3]),
            ("negative", -3, [3, "x", 2.5]), ("large", 10 ** 30, [10 ** 29, "x", 1]), ("unicode", "\u00e9\u4e2d", ["e", 3, "x"]),
            ("bytes", b"ab", [b"a", "ab", 3]), ("None", None, [0, "", False])]
    for name, v, others in vals:
        for j in (0, 1, 3, 5):
            yield name, v, others, j


def run_exotic(name, v, others, j, acc):
    import typing

    from ovld import Ovld

    log = []
    ov = Ovld()

    def mk(i, ann):
        def m(x):
            log.append(i)
        m.__annotations__ = {"x": ann}
        m.__name__ = m.__qualname__ = f"m{i}"
        return m

    found = []
    try:
        ov.register(mk(0, typing.Literal[v]))
        for i in range(j):
            ov.register(mk(i + 1, typing.Literal[1000 + i]))
        ov.register(mk(99, object), priority=-1)
        for probe, want in [(v, [0])] + [(o, [99]) for o in others] + [(1000 + i, [i + 1]) for i in range(j)]:
            del log[:]
            ov(probe)
            if acc is not None:
                acc.count("evaluations")
                acc.count("nontrivial")
            if log != want:
                found.append(("exotic-literal:wrong-method", {"value": name, "companions": j, "probe": repr(probe)[:40], "expected": want, "got": list(log)}))
    except Exception as e:  # noqa
        found.append(("exotic-literal:" + type(e).__name__, {"value": name, "companions": j, "exc": core.short_exc(e)[:160]}))
    if acc is not None:
        for disc, detail in found[:1]:
            acc.violation({"exotic": name, "companions": j}, disc, detail)
    return found


def strategies(acc):
    for k, v in list(linecache.cache.items()):
        if k.startswith("<ovld:") and v[2] and "__DEPENDENT_DISPATCH__" in v[2][0]:
            src = "".join(v[2])
            s = "table" if ".get(" in src else "counting" if "SUMMATION" in src else "if-chain"
            acc.h("dispatcher_strategy", s)


def shard(shard, nshards, tier, seed):
    acc = core.Acc(PROP)
    for idx, (T, comps, pos2, order) in enumerate(programs(tier)):
        if idx % nshards != shard:
            continue
        acc.count("programs")
        check_program(T, comps, pos2, order, acc)
        if idx % (nshards * 41) == shard:
            acc.sample({"type": T, "companions": comps, "pos2": pos2, "order": order})
        if acc.n["programs"] % 50 == 0:
            strategies(acc)
            gen.purge_globals()
    strategies(acc)
    gen.purge_globals()
    for idx, (name, v, others, j) in enumerate(exotic_cases()):
        if idx % nshards == shard:
            run_exotic(name, v, others, j, acc)
    return acc


def replay(case):
    if "exotic" in case:
        for name, v, others, j in exotic_cases():
            if name == case["exotic"] and j == case["companions"]:
                return run_exotic(name, v, others, j, None)
        return []
    order = tuple(case["order"]) if case.get("order") else None
    return check_program(case["type"], case["companions"], case["pos2"], order, None, only=[case["value"], case.get("second", 5 if case["pos2"] else None)])


def main(tier):
    t0 = time.time()
    merged = core.run_sharded(__name__, "shard", tier)
    st = merged["hist"].get("dispatcher_strategy", {})
    if not merged["errors"] and not all(st.get(k) for k in ("if-chain", "counting", "table")):
        merged["errors"].append(f"a dispatcher strategy was never generated: {dict(st)}")
    return core.finish(
        PROP, tier, "model_checking", merged, t0,
        rule="type under test in {Literal with 1-4 values over int / str / mixed; tuple[...] arity 0-2 over int, str, Literal; list / "
             "Sequence / Collection / set / Mapping / dict element types; Regexp, StartsWith, EndsWith, HasKey; element types that are "
             "themselves value types (tuple of StartsWith / of tuple / of list, list of Literal / of StartsWith / of tuple, dict with a Literal "
             "value, Mapping with a StartsWith key); value types combined with plain classes, also two levels down with no directly "
             "value-dependent member; & and | of pairs "
             "(thorough: nesting depth 2)} x companions (0-5 single-valued Literal methods, same or other value type, disjoint or "
             "sharing a value; a second dependent position on every method / on the method under test only / on the companions only, "
             "called with a second argument inside and outside it; all registration orders for <= 2 companions; object fallback at priority "
             "-1) x the whole value corpus; oracle: documented meaning == isinstance(value, type) == the method runs (R1-R3 for "
             "the selection); the generated dispatcher strategies if-chain / table / counting must all occur; non-trivial = the "
             "value is an instance of the type under test",
        assumptions=["reference semantics of vt/annot.py; where the order between the tested type and a companion is not specified "
                     "only applicability is judged"],
    )
