"""python -m vt <ID> [--tier quick|thorough] [--replay PATH]"""

import argparse
import importlib
import json
import os
import sys

os.environ.setdefault("PYTHONHASHSEED", "0")


def main():
    ap = argparse.ArgumentParser()
    ap.add_argument("prop")
    ap.add_argument("--tier", default=os.environ.get("VERIF_TIER", "quick"))
    ap.add_argument("--replay")
    ap.add_argument("--dump-ids", help="(maintenance) write all raw violation ids of this run to a file")
    a = ap.parse_args()
    tier = "thorough" if a.tier.startswith("t") else "quick"
    mod = importlib.import_module("vt." + a.prop.lower())
    if a.replay:
        doc = json.load(open(a.replay))
        if doc.get("discrepancy") == "interpreter-crashed":
            # re-run exactly that shard in a child process and see whether the interpreter dies again
            import multiprocessing as mp

            c = doc["case"]
            p = mp.get_context("fork").Process(target=getattr(mod, "shard"), args=(c["shard"], c["of"], c["tier"], 0))
            p.start()
            p.join()
            if p.exitcode and p.exitcode < 0:
                print(f"VIOLATION property={a.prop} replay={a.replay}")
                print(f"   interpreter crashed again (signal {-p.exitcode}) in shard {c['shard']}/{c['of']}")
                return 1
            print("replay: the shard completes on this tree")
            return 0
        discs = mod.replay(doc["case"])
        if discs:
            print(f"VIOLATION property={a.prop} replay={a.replay}")
            for d in discs:
                print("  ", d)
            return 1
        print("replay: case does not violate on this tree")
        return 0
    if a.dump_ids:
        os.environ["VT_DUMP_IDS"] = a.dump_ids
    return mod.main(tier)


if __name__ == "__main__":
    sys.exit(main())
