"""C15 -- equivalent spellings of an annotation dispatch identically (E1, purely differential)."""

import itertools
import time
import typing
from typing import Annotated, Any, Literal, Optional, Union

from . import core, gen

import ovld.dependent as ovld_dep  # noqa: E402

PROP = "C15"


class K0:
    pass


class K1:
    pass


class K2(K0, K1):
    pass


class K3(K0):
    pass


NoneT = type(None)

# label -> annotation object (None = no annotation at all)
SW = ovld_dep.StartsWith["a"]

ANN = {
    "Union[A,B]": Union[K0, K1], "A|B": K0 | K1, "(A,B)": (K0, K1), "Union[B,A]": Union[K1, K0], "B|A": K1 | K0, "(B,A)": (K1, K0),
    "Optional[A]": Optional[K0], "A|None": K0 | None, "Union[A,None]": Union[K0, None], "None|A": None | K0,
    "missing": None, "Any": Any, "object": object,
    "Annotated[A,'x']": Annotated[K0, "x"], "A": K0,
    "'A'": "C15_K0",
    # every other form written as a string (evaluated in the function's globals)
    "'Union[A,B]'": "Union[C15_K0, C15_K1]", "'B|A'": "C15_K1 | C15_K0", "'Optional[A]'": "Optional[C15_K0]", "'A|None'": "C15_K0 | None",
    "'Any'": "Any", "'typing.Any'": "typing.Any", "'object'": "object", "'Annotated[A,1]'": "Annotated[C15_K0, 1]",
    "'list[A]'": "list[C15_K0]", "'List[A]'": "List[C15_K0]", "'Literal[2,1]'": "Literal[2, 1]", "'Union[int,A]'": "Union[int, C15_K0]",
    "list[A]": list[K0], "List[A]": typing.List[K0],
    "Literal[1,2]": Literal[1, 2], "Literal[2,1]": Literal[2, 1],
    "Literal['a',1]": Literal["a", 1], "Literal[1,'a']": Literal[1, "a"],
    # values that are equal but of different types: typing keeps both, in either order
    "Literal[0,False]": Literal[0, False], "Literal[False,0]": Literal[False, 0], "Literal[True,1]": Literal[True, 1], "Literal[1,True]": Literal[1, True],
    "Union[A,int]": Union[K0, int], "A|int": K0 | int, "(int,A)": (int, K0),
    "type[A]": type[K0], "'type[A]'": "type[C15_K0]", "Annotated[type[A],'x']": Annotated[type[K0], "x"], "Type[A]": typing.Type[K0],
    "type": type, "'type'": "type", "type[object]": type[object], "type[Any]": type[Any],
    # unions with a value-dependent member whose check would raise outside its bound, in both member orders
    "Union[SW,int]": Union[SW, int], "Union[int,SW]": Union[int, SW], "(SW,int)": (SW, int), "(int,SW)": (int, SW),
    "Optional[SW]": Optional[SW], "Union[None,SW]": Union[None, SW], "Union[SW,None]": Union[SW, None],
    # surroundings only
    "B": K1, "K2": K2, "K3": K3, "int": int, "str": str, "Literal[1]": Literal[1], "Literal[2,3]": Literal[2, 3], "Union[B,int]": Union[K1, int],
    "list": list, "list[int]": list[int], "NoneType": NoneT,
}

CLASSES_EQ = [
    ["Union[A,B]", "A|B", "(A,B)", "Union[B,A]", "B|A", "(B,A)", "'Union[A,B]'", "'B|A'"],
    ["Optional[A]", "A|None", "Union[A,None]", "None|A", "'Optional[A]'", "'A|None'"],
    ["missing", "Any", "object", "'Any'", "'typing.Any'", "'object'"],
    ["Annotated[A,'x']", "A", "'A'", "'Annotated[A,1]'"],
    ["list[A]", "List[A]", "'list[A]'", "'List[A]'"],
    ["Literal[1,2]", "Literal[2,1]", "'Literal[2,1]'"],
    ["Literal['a',1]", "Literal[1,'a']"],
    ["Literal[0,False]", "Literal[False,0]"],
    ["Literal[True,1]", "Literal[1,True]"],
    ["Union[A,int]", "A|int", "(int,A)", "'Union[int,A]'"],
    ["Union[SW,int]", "Union[int,SW]", "(SW,int)", "(int,SW)"],
    ["Optional[SW]", "Union[None,SW]", "Union[SW,None]"],
    ["type[A]", "'type[A]'", "Annotated[type[A],'x']"],
    ["type", "'type'", "type[object]"],
]
SURROUND_POOL = ["A", "B", "K2", "K3", "object", "int", "str", "Literal[1]", "Literal[2,3]", "Union[B,int]", "list", "list[int]", "NoneType", "Union[A,B]"]

VALUES = [("'abc'", "abc"), ("'xyz'", "xyz"), ("0", 0), ("False", False), ("True", True), ("K0()", K0()), ("K1()", K1()), ("K2()", K2()), ("K3()", K3()), ("None", None), ("1", 1), ("2", 2), ("3", 3), ("'a'", "a"), ("'b'", "b"),
          ("[]", []), ("[K0()]", [K0()]), ("[1]", [1]), ("1.5", 1.5), ("K0", K0), ("K3", K3), ("K1", K1), ("int", int), ("list[K0]", list[K0])]


def norm(out):
    import re

    kind = out[0]
    payload = repr(out[2])
    if kind == "ambiguous":
        payload = str(len(re.findall(r"^\* ", str(out[3]), re.M)))
    return (kind, out[1], payload)


STRING_NAMES = {"C15_K0": K0, "C15_K1": K1, "Union": Union, "Optional": Optional, "Any": Any, "Annotated": Annotated, "Literal": Literal,
                "List": typing.List, "typing": typing}


def build(labels, prios):
    for glb in gen._FACTORY_GLOBALS:
        glb.update(STRING_NAMES)
    mspecs = [{"id": i, "shape": gen.SHAPES["x"], "types": {"x": lab} if ANN[lab] is not None or lab != "missing" else {}, "prio": p}
              for i, (lab, p) in enumerate(zip(labels, prios))]
    for m in mspecs:
        if m["types"].get("x") == "missing":
            m["types"] = {}
    gen.factory(gen.SHAPES["x"], "plain")
    for glb in gen._FACTORY_GLOBALS:
        glb.update(STRING_NAMES)
    return gen.Program({}, mspecs, annotate=lambda t, c: ANN[t])


def table(labels, prios):
    try:
        prog = build(labels, prios)
    except Exception as e:  # noqa
        return ("build-error", type(e).__name__)
    return tuple(norm(prog.call((v,), {})) for _, v in VALUES)


def surroundings(tier):
    yield ()
    for s in SURROUND_POOL:
        for p in (0, 1, -1):
            yield ((s, p),)
    pool2 = SURROUND_POOL if tier != "quick" else ["A", "B", "K2", "object", "int", "Literal[1]", "Union[B,int]"]
    for s1, s2 in itertools.combinations(pool2, 2):
        yield ((s1, 0), (s2, 0))
        if tier != "quick":
            yield ((s1, 1), (s2, 0))
            yield ((s1, 0), (s2, -1))


def cases(tier):
    for ci, cls in enumerate(CLASSES_EQ):
        for sur in surroundings(tier):
            for position in ("first", "last"):
                yield ci, sur, position, None
        # the other spelling of the same annotation as a surrounding: must act as a re-registration
        for other in cls:
            yield ci, ((other, 0),), "twin-first", other
            yield ci, ((other, 0),), "twin-last", other


def run_case(ci, sur, position, twin, acc):
    cls = CLASSES_EQ[ci]
    tables = {}
    for sp in cls:
        if position in ("first", "twin-first"):
            labels = [sp] + [s for s, _ in sur]
            prios = [0] + [p for _, p in sur]
        else:
            labels = [s for s, _ in sur] + [sp]
            prios = [p for _, p in sur] + [0]
        t = table(labels, prios)
        if twin is not None and t != ("build-error",):
            # ids differ by position only; compare who wins by *position*, which is what the ids are
            pass
        tables[sp] = t
        if acc is not None:
            acc.count("evaluations", len(VALUES))
    ref_sp = cls[0]
    found = []
    for sp in cls[1:]:
        if tables[sp] != tables[ref_sp]:
            if isinstance(tables[sp][0], str) or isinstance(tables[ref_sp][0], str):
                diff = [("build", tables[ref_sp], tables[sp])]
            else:
                diff = [(VALUES[i][0], a[:2], b[:2]) for i, (a, b) in enumerate(zip(tables[ref_sp], tables[sp])) if a != b]
            kinds = sorted({f"{d[1][0]}/{d[2][0]}" for d in diff}) if diff and diff[0][0] != "build" else ["build"]
            found.append((f"spellings-differ:{kinds[0]}", {"a": ref_sp, "b": sp, "differences": [list(map(str, d)) for d in diff[:4]]}))
    if acc is not None:
        acc.count("cases")
        acc.count("nontrivial")
        for disc, detail in found:
            acc.violation({"class": ci, "spellings": cls, "surrounding": [list(s) for s in sur], "position": position}, disc, detail)
    return found


# ----------------------------------------------------------------------------------------
# a string annotation names whatever its name is bound to WHEN the method is registered: the same string may
# name different types for different methods of one function (a rebound global, functions built by exec)

REBIND_CLASSES = {"K0": K0, "K1": K1, "K2": K2, "K3": K3, "int": int, "str": str}
REBIND_FORMS = {"name": (lambda: "C15_T", lambda c: c), "tuple-member": (lambda: ("C15_T", str), lambda c: (c, str)),
                "list-argument": (lambda: "list[C15_T]", lambda c: list[c])}


def rebind_cases(tier):
    names = ["K0", "K1", "K2", "int"] if tier == "quick" else list(REBIND_CLASSES)
    for form in REBIND_FORMS:
        for L in (2, 3):
            for seq in itertools.product(names, repeat=L):
                if len(set(seq)) > 1:
                    yield form, seq


def rebind_table(form, seq, as_string):
    gen.factory(gen.SHAPES["x"], "plain")
    mk_s, mk_d = REBIND_FORMS[form]

    def annotate(t, c):
        for glb in gen._FACTORY_GLOBALS:
            glb["C15_T"] = REBIND_CLASSES[t]
        return mk_s() if as_string else mk_d(REBIND_CLASSES[t])

    mspecs = [{"id": i, "shape": gen.SHAPES["x"], "types": {"x": t}, "prio": 0} for i, t in enumerate(seq)]
    try:
        prog = gen.Program({}, mspecs, annotate=annotate)
    except Exception as e:  # noqa
        return ("build-error", type(e).__name__)
    return tuple(norm(prog.call((v,), {})) for _, v in VALUES)


def run_rebind(form, seq, acc):
    a, b = rebind_table(form, seq, False), rebind_table(form, seq, True)
    found = []
    if acc is not None:
        acc.count("evaluations", 2 * len(VALUES))
        acc.count("cases")
        acc.count("nontrivial")
    if a != b:
        diff = [("build", a, b)] if isinstance(a[0], str) or isinstance(b[0], str) else \
            [(VALUES[i][0], x[:2], y[:2]) for i, (x, y) in enumerate(zip(a, b)) if x != y]
        found.append(("string-rebound-between-registrations", {"form": form, "sequence": list(seq), "differences": [list(map(str, d)) for d in diff[:4]]}))
        if acc is not None:
            acc.violation({"rebind": True, "form": form, "sequence": list(seq)}, found[0][0], found[0][1])
    return found


def shard(shard, nshards, tier, seed):
    acc = core.Acc(PROP)
    for idx, (form, seq) in enumerate(rebind_cases(tier)):
        if idx % nshards == shard:
            run_rebind(form, seq, acc)
    for idx, (ci, sur, position, twin) in enumerate(cases(tier)):
        if idx % nshards != shard:
            continue
        run_case(ci, sur, position, twin, acc)
        if idx % (nshards * 13) == shard:
            acc.sample({"spellings": CLASSES_EQ[ci], "surrounding": [list(s) for s in sur], "position": position})
        if idx % 50 == 0:
            gen.purge_globals()
    return acc


def replay(case):
    if case.get("rebind"):
        return run_rebind(case["form"], tuple(case["sequence"]), None)
    return run_case(case["class"], tuple(tuple(s) for s in case["surrounding"]), case["position"], None, None)


def main(tier):
    t0 = time.time()
    merged = core.run_sharded(__name__, "shard", tier)
    return core.finish(
        PROP, tier, "model_checking", merged, t0,
        rule="10 classes of equivalent spellings (incl. type[A] written directly / as a string / in Annotated, and bare type / its string form / type[object]) (Union in three syntaxes and both member orders; Optional forms; missing / Any / object; "
             "Annotated; every form also written as a string annotation; list[A] / typing.List[A]; Literal value orders incl. mixed types; union with a builtin) x "
             "surroundings (none; every single method of a pool at priority 0 / 1 / -1; pairs; the other spelling of the same "
             "annotation, which must act as a re-registration) x registered first or last x every corpus value; oracle: the outcome "
             "tables of all spellings of a class are identical; plus: one string name rebound to a different class before each of 2-3 "
             "registrations on one function (as the whole annotation, as a member of a tuple, as the argument of list[...]) must behave "
             "like the classes written directly; non-trivial = every case compares >= 2 spellings",
        assumptions=["purely differential: no reference model involved"],
    )
