"""C09 -- source rewriting changes nothing except the recurse / call_next call sites (E7, differential).

Every generated body is built twice from the same source text: once registered on a real Ovld (the
library rewrites it) and once exec'd in a namespace where the special names are ordinary callables
supplied by a small reference interpreter that never goes through the library's dispatcher.
"""

import itertools
import linecache
import sys
import time
import warnings

warnings.filterwarnings("ignore", category=SyntaxWarning)  # generated bodies such as "assert (a, b), msg" are deliberate

from . import core, gen

PROP = "C09"

import ovld  # noqa: E402
from ovld import Ovld  # noqa: E402

# ----------------------------------------------------------------------------------------
# grammar

# contexts: statements of the method body; {C} is the special call expression
CONTEXTS = {
    "return": "return {C}",
    "assign": "v = {C}\nreturn v",
    "call-arg": "return wrap({C})",
    "call-kwarg": "return wrap(q={C})",
    "listcomp-elt": "return [{C} for i in tr('it', [0, 1])]",
    "listcomp-cond": "return [i for i in [0, 1] if {C}]",
    "listcomp-iter": "return [i for i in {C}]",
    "listcomp-iter2": "return [j for i in [0, 1] for j in {C}]",
    "setcomp-elt": "return len({{{C} for i in [0, 1]}})",
    "dictcomp-val": "return {{i: {C} for i in [0, 1]}}",
    "genexp-elt": "return list({C} for i in [0, 1])",
    "genexp-iter": "return list(i for i in {C})",
    "lambda": "g = lambda: {C}\nreturn g()",
    "nested-def": "def g():\n    return {C}\nreturn g()",
    "nested-def-default": "def g(z={C}):\n    return z\nreturn g()",
    "lambda-default": "g = lambda z={C}: z\nreturn g()",
    "ifexp-test": "return 1 if {C} else 2",
    "ifexp-taken": "return {C} if tr('t', True) else 0",
    "ifexp-untaken": "return 0 if tr('t', True) else {C}",
    "and-evaluated": "return tr('l', 1) and {C}",
    "and-short": "return tr('l', 0) and {C}",
    "or-evaluated": "return tr('l', 0) or {C}",
    "or-short": "return tr('l', 1) or {C}",
    "fstring": "return f'<{{{C}}}>'",
    "subscript": "return {C}[0]",
    "attribute": "return {C}.__class__.__name__",
    "walrus": "return (w := {C}, w)",
    "try-finally": "try:\n    return {C}\nfinally:\n    tr('fin', 0)",
    "try-except": "try:\n    v = {C}\n    return v, {FAIL}\nexcept TypeError as e:\n    return 'caught', str(e)[:9]",
    "generator": "yield tr('y0', 0)\nyield {C}",
    "for-iter": "out = []\nfor i in {C}:\n    out.append(i)\nreturn out",
    "with": "with ctx({C}) as c:\n    return c",
    "decorator": "@deco({C})\ndef g():\n    return 1\nreturn g",
    "raise-after": "v = {C}\nreturn 1 // tr('zero', 0)",
    "fail-propagates": "v = {C}\nw = (tr('pre', 0),\n     {FAIL})\nreturn v, w",
    "two-calls": "return ({C}, {C})",
    "binop": "return ({C},) + ({C},)",
    "class-body": "class Z:\n    a = {C}\nreturn Z.a",
    # further placements (wave 5)
    "while-cond": "n = 0\nwhile n < 1 and {C}:\n    n += 1\nreturn n",
    "assert": "assert {C}, tr('msg', 'm')\nreturn 1",
    "augassign": "v = ()\nv += ({C},)\nreturn v",
    "annassign": "v: tuple = {C}\nreturn v",
    "starred-display": "return [tr('h', 0), *{C}]",
    "dict-display-unpack": "return {{**{{'a': {C}}}, 'b': tr('b2', 2)}}",
    "slice": "return (1, 2, 3)[len({C}) - 2:]",
    "compare-chain": "return tr('lo', 0) < len({C}) < tr('hi', 9)",
    "unary-not": "return not {C}",
    "match-subject": "match {C}:\n    case (tag, *rest):\n        return tag, rest\n    case _:\n        return None",
    "yield-from": "yield tr('y0', 0)\nyield from {C}",
    "yield-value-used": "got = yield {C}\nyield got",
    "except-handler": "try:\n    1 // tr('zero', 0)\nexcept ZeroDivisionError:\n    return {C}",
    "try-else": "try:\n    tr('body', 0)\nexcept ValueError:\n    return None\nelse:\n    return {C}",
    "with-body": "with ctx(tr('c', 1)):\n    return {C}",
    "nested-class-method": "class Z:\n    def m(self):\n        return {C}\nreturn Z().m()",
    "double-nested-def": "def g():\n    def h():\n        return {C}\n    return h()\nreturn g()",
    "lambda-in-comprehension": "return [(lambda: {C})() for i in tr('it', [0, 1])]",
    "nested-comprehension": "return [[{C} for i in [0]] for j in tr('it', [0, 1])]",
    "starred-assign": "a, *b = {C}\nreturn a, b",
    "call-star-arg": "return wrap(*{C})",
    "nonlocal-target": "v = None\ndef g():\n    nonlocal v\n    v = {C}\ng()\nreturn v",
    "return-in-loop": "for i in tr('it', [0, 1]):\n    if i:\n        return {C}\nreturn None",
    "global-name-shadow": "wrap2 = wrap\nreturn wrap2({C}, q={C})",
    # names the rewriting itself uses, as the method's own local variables
    "local-named-type": "type = tr('ty', 5)\nreturn {C}, type",
    "locals-named-like-helpers": "isinstance = tr('i', 1)\nlen2 = len\nmap = tr('m', 2)\nreturn {C}, isinstance, map",
    # a call that FOLLOWS a completed inner comprehension inside a region where temporaries are forbidden
    "listcomp-iter-after-inner": "return [i for i in zip([q for q in tr('in', [0])], {C})]",
    "listcomp-iter-around-inner": "return [i for i in ({C}, sum(q for q in tr('in', [0])), {C})]",
    "second-for-after-inner": "return [b for a in [0] for b in (sum(q for q in [a]), {C})]",
    "class-body-two-comprehensions": "class Z:\n    a = [q for q in tr('in', [0])]\n    b = [{C} for i in [0]]\nreturn Z.b",
    "class-body-after-comprehension": "class Z:\n    a = [q for q in tr('in', [0])]\n    b = {C}\nreturn Z.b",
    "iter-after-nested-class": "return [i for i in (tr('h', 0), *[type('Z', (), {{'a': [q for q in [0]]}}).a, {C}])]",
}
THOROUGH_ONLY = set()

# depth 2 (thorough): an expression context around the call, inside each statement context
EXPR_WRAPS = {
    "in-call-arg": "wrap({C})",
    "in-listcomp": "[{C} for i2 in [0]]",
    "in-listcomp-iter": "[j2 for j2 in {C}]",
    "in-ifexp": "({C} if tr('t2', True) else 0)",
    "in-or": "(tr('l2', 0) or {C})",
    "in-lambda": "(lambda: {C})()",
    "in-fstring": "f'[{{{C}}}]'",
    "in-subscript": "({C},)[0]",
    "in-walrus": "(w2 := {C})",
    "in-tuple": "(tr('u', 1), {C})",
    "in-dictcomp": "{{i2: {C} for i2 in [0]}}",
    "in-genexp": "tuple({C} for i2 in [0])",
}
DEPTH2_SPECIALS = ("recurse", "call_next")
DEPTH2_KINDS = ("function", "method", "closure")
DEPTH2_FORMS = ("one", "kw", "star", "nested-second")

# call forms; {S} is the special name; R* arguments lead to leaves, N* arguments make call_next meaningful
FORMS_R = {
    "one": "{S}(tr('a', 's'))",
    "two": "{S}(tr('a', 1), tr('b', 2))",
    "kw": "{S}(tr('a', 's'), k=tr('k', 3))",
    "star": "{S}(*tr('xs', ['s']))",
    "pos-star": "{S}(tr('a', 1), *tr('xs', [2]))",
    "dstar": "{S}(**tr('kw', {{'x': 's'}}))",
    "pos-dstar": "{S}(tr('a', 's'), **tr('kw', {{'k': 3}}))",
    "nested": "{S}({S}(tr('a', 's')))",
    "nested-second": "{S}(tr('a', 1), len({S}(tr('b', 's'))))",
    "nested-kw": "{S}(tr('a', 's'), k=len({S}(tr('b', 's'))))",
    "nested-both": "{S}(len({S}(tr('a', 's'))), len({S}(tr('b', 's'))))",
    "second-by-name": "{S}(tr('a', 1), y=tr('b', 2))",
    "second-by-name-dstar": "{S}(tr('a', 1), **tr('kw', {{'y': 2}}))",
    "second-by-name-star-dstar": "{S}(*tr('xs', [1]), **tr('kw', {{'y': 2}}))",
    "two-keywords-unsorted": "{S}(tr('a', 's'), k=tr('k', 3), j=tr('j', 4))",
    "two-keywords-dependent": "{S}(tr('a', 's'), k=(kk := tr('k', 3)), j=kk + tr('j', 1))",
    "name-rebound-by-later-argument": "[n0 := tr('a', 1), {S}(n0, len(n0 := tr('b', 'xx')))][1]",
}
FORMS_N = {
    "one": "{S}(tr('a', 5))",
    "two": "{S}(tr('a', 1), tr('b', 2))",
    "kw": "{S}(tr('a', 's'), k=tr('k', 3))",
    "star": "{S}(*tr('xs', [5]))",
    "pos-star": "{S}(tr('a', 1), *tr('xs', [2]))",
    "dstar": "{S}(**tr('kw', {{'x': 5}}))",
    "pos-dstar": "{S}(tr('a', 's'), **tr('kw', {{'k': 3}}))",
    "nested": "{S}({S}(tr('a', 5)))",
    "nested-second": "{S}(tr('a', 1), len({S}(tr('b', 5))))",
    "nested-kw": "{S}(tr('a', 's'), k=len({S}(tr('b', 5))))",
    "nested-both": "{S}(len({S}(tr('a', 5))), len({S}(tr('b', 5))))",
    "second-by-name": "{S}(tr('a', 1), y=tr('b', 2))",
    "second-by-name-dstar": "{S}(tr('a', 1), **tr('kw', {{'y': 2}}))",
    "second-by-name-star-dstar": "{S}(*tr('xs', [1]), **tr('kw', {{'y': 2}}))",
    "two-keywords-unsorted": "{S}(tr('a', 's'), k=tr('k', 3), j=tr('j', 4))",
    "two-keywords-dependent": "{S}(tr('a', 's'), k=(kk := tr('k', 3)), j=kk + tr('j', 1))",
    "name-rebound-by-later-argument": "[n0 := tr('a', 1), {S}(n0, len(n0 := tr('b', 'xx')))][1]",
}
FAIL_R = "{S}(tr('f', 1.5))"
SPECIALS = {"recurse": "recurse", "call_next": "call_next", "self-name": "fself", "renamed": "rec", "closure-name": "me"}
KINDS = ["function", "closure", "pos-default", "kw-default", "method", "lambda-default", "strict-first", "closure-selfname"]

FIXED = '''
def leaf_s(x: str):
    return ("S", x)


def leaf_t(x: tuple):
    return ("T", x)


def l2(x: int, y: int):
    return ("L2", x, y)


def lk(x: str, *, k: int):
    return ("K", x, k)


def lkj(x: str, *, k: int, j: int):
    return ("KJ", x, k, j)


def base(x: int):
    return ("B", x)

'''
FIXED_M = FIXED.replace("(x", "(self, x")
# the first position is named differently by every method, which makes it strictly positional; the second one keeps its name
FIXED_STRICT = FIXED
for _old, _new in (("leaf_s(x: str)", "leaf_s(a: str)"), ('("S", x)', '("S", a)'), ("leaf_t(x: tuple)", "leaf_t(b: tuple)"), ('("T", x)', '("T", b)'),
                   ("l2(x: int, y: int)", "l2(c: int, y: int)"), ('("L2", x, y)', '("L2", c, y)'), ("lk(x: str, *, k: int)", "lk(d: str, *, k: int)"),
                   ('("K", x, k)', '("K", d, k)'), ("lkj(x: str, *, k: int, j: int)", "lkj(g: str, *, k: int, j: int)"), ('("KJ", x, k, j)', '("KJ", g, k, j)'), ("base(x: int)", "base(e: int)"), ('("B", x)', '("B", e)')):
    assert _old in FIXED_STRICT, _old
    FIXED_STRICT = FIXED_STRICT.replace(_old, _new)


def indent(text, n):
    return "\n".join((" " * n + l if l else l) for l in text.split("\n"))


def make_source(context, form, special, kind):
    S = SPECIALS[special]
    forms = FORMS_N if special == "call_next" else FORMS_R
    C = forms[form].format(S=S)
    if "+" in context:
        context, wrap = context.split("+")
        C = EXPR_WRAPS[wrap].replace("{C}", C)
    body = CONTEXTS[context].replace("{C}", C).replace("{FAIL}", FAIL_R.format(S=S))
    body = body.replace("{{", "{").replace("}}", "}")
    if kind == "function":
        src = FIXED + "def tested(x: int):\n" + indent(body, 4) + "\n"
    elif kind == "strict-first":
        src = FIXED_STRICT + "def tested(x: int):\n" + indent(body, 4) + "\n"
    elif kind == "closure":
        src = FIXED + "def make(cv):\n    def tested(x: int):\n        tr('cv', cv)\n" + indent(body, 8) + "\n    return tested\n"
    elif kind == "closure-selfname":
        # the function's own name is itself a closure variable (f = Ovld() inside a factory), between two other closure
        # variables in sorted order: the rewriting removes it from the free variables of the recompiled method
        src = (FIXED + "def make(cv):\n    me = None\n    zz = ('zz', cv)\n\n    def tested(x: int):\n        tr('cv:' + str(cv), cv)\n"
               "        tr('zz:' + type(zz).__name__ + str(zz[1:]), zz)\n" + indent(body, 8) +
               "\n\n    def setme(v):\n        nonlocal me\n        me = v\n\n    tested.setme = setme\n    return tested\n")
    elif kind == "pos-default":
        src = FIXED + "def tested(x: int, y: tuple = DEF1):\n    tr('d', y)\n" + indent(body, 4) + "\n"
    elif kind == "kw-default":
        src = FIXED + "def tested(x: int, *, kd: tuple = DEF2):\n    tr('kd', kd)\n" + indent(body, 4) + "\n"
    elif kind == "lambda-default":
        # a lambda and a generator expression in the signature: their code objects precede the body's
        src = (FIXED + "def tested(x: int, y: tuple = tuple(i for i in (4, 5)), *, g=(lambda: 41)):\n    tr('g', g())\n    tr('y', y)\n"
               + indent(body, 4) + "\n")
    else:
        src = FIXED_M + "def tested(self, x: int):\n    tr('self', self.tag)\n" + indent(body, 4) + "\n"
    return src


# ----------------------------------------------------------------------------------------
# the two sides


class NoMethod(TypeError):
    pass


class Side:
    def __init__(self):
        self.trlog = []

    def tr(self, tag, value):
        self.trlog.append(tag)
        return value

    def helpers(self):
        import contextlib

        @contextlib.contextmanager
        def ctx(v):
            self.trlog.append("enter")
            yield v
            self.trlog.append("exit")

        def wrap(*a, **k):
            return ("W", a, tuple(sorted(k.items())))

        def deco(v):
            def d(fn):
                return ("D", v, fn())

            return d

        return {"tr": self.tr, "ctx": ctx, "wrap": wrap, "deco": deco, "DEF1": ("def1",), "DEF2": ("def2",)}


class Holder:
    tag = "inst"


def build_real(src, fname, kind, special):
    side = Side()
    glb = dict(side.helpers(), recurse=ovld.recurse, call_next=ovld.call_next, rec=ovld.recurse, __name__="vtgen")
    exec(compile(src, fname, "exec"), glb, glb)
    gen._FACTORY_GLOBALS.append(glb)
    ov = Ovld()
    for nm in ("leaf_s", "leaf_t", "l2", "lk", "lkj", "base"):
        ov.register(glb[nm])
    glb["fself"] = ov.dispatch
    tested = [glb["make"]("CV1"), glb["make"]("CV2")] if kind == "closure" else [glb["make"]("CV1")] if kind == "closure-selfname" else [glb["tested"]]
    if kind == "closure-selfname":
        tested[0].setme(ov.dispatch)
    ov.register(tested[0], priority=1)
    fns = [ov]
    if kind == "closure":
        ov2 = Ovld()
        for nm in ("leaf_s", "leaf_t", "l2", "lk", "lkj", "base"):
            ov2.register(glb[nm])
        ov2.register(tested[1], priority=1)
        fns.append(ov2)
    if kind == "method":
        holder = Holder()
        entry = [type("H", (Holder,), {"f": o}) for o in fns]
        calls = [(lambda h=h: h().f) for h in entry]
    else:
        calls = [(lambda o=o: o.dispatch) for o in fns]
    return side, calls, tested


def build_ref(src, fname, kind, special):
    side = Side()
    glb = dict(side.helpers(), __name__="vtgen")
    state = {"self": None}

    def call_method(fn, a, k):
        if kind == "method":
            return fn(state["self"], *a, **k)
        return fn(*a, **k)

    def dispatch(*a, **k):
        """Ordinary callable with the documented meaning of recurse / the function's own name."""
        if "x" in k:
            a = (k.pop("x"),) + a
        if "y" in k and len(a) == 1:
            a = a + (k.pop("y"),)
        if k:
            if set(k) == {"k", "j"} and len(a) == 1 and isinstance(a[0], str) and isinstance(k["k"], int) and isinstance(k["j"], int):
                return call_method(glb["lkj"], a, k)
            if set(k) == {"k"} and len(a) == 1 and isinstance(a[0], str) and isinstance(k["k"], int):
                return call_method(glb["lk"], a, k)
            raise NoMethod("No method")
        if len(a) == 2:
            if all(isinstance(v, int) for v in a):
                return call_method(glb["l2"], a, k)
            raise NoMethod("No method")
        if len(a) != 1:
            raise TypeError("arity")
        v = a[0]
        if isinstance(v, int):
            return call_method(state["tested"], a, k)
        if isinstance(v, str):
            return call_method(glb["leaf_s"], a, k)
        if isinstance(v, tuple):
            return call_method(glb["leaf_t"], a, k)
        raise NoMethod("No method")

    def cnext(*a, **k):
        """call_next from the tested method (int, priority 1): the int method below it, or a fresh call."""
        if "x" in k:
            a = (k.pop("x"),) + a
        if not k and len(a) == 1 and isinstance(a[0], int):
            return call_method(glb["base"], a, k)
        return dispatch(*a, **k)

    glb.update(recurse=dispatch, call_next=cnext, rec=dispatch, fself=dispatch)
    exec(compile(src, fname, "exec"), glb, glb)
    tested = [glb["make"]("CV1"), glb["make"]("CV2")] if kind == "closure" else [glb["make"]("CV1")] if kind == "closure-selfname" else [glb["tested"]]
    if kind == "closure-selfname":
        tested[0].setme(dispatch)

    def entry(i):
        def run(*a, **k):
            state["tested"] = tested[i]
            if kind == "method":
                state["self"] = Holder()
            return dispatch(*a, **k)

        return run

    calls = [(lambda i=i: entry(i)) for i in range(len(tested))]
    return side, calls, tested


def observe(side, get_fn, kind, context, fname):
    """Run one call f(7) and describe everything the property lets us compare."""
    del side.trlog[:]
    obs = {}
    try:
        fn = get_fn()
        if context.split("+")[0] in ("generator", "yield-from", "yield-value-used"):
            g = fn(7)
            obs["lazy"] = list(side.trlog)  # nothing may run before the first next()
            res = list(g)
        else:
            res = fn(7)
        obs["result"] = _plain(res)
    except Exception as e:  # noqa
        msg = str(e)
        if isinstance(e, NoMethod) or (isinstance(e, TypeError) and msg.startswith("No method")):
            obs["exc"] = ("TypeError", "No method")
        else:
            obs["exc"] = (type(e).__name__, msg[:60] if not isinstance(e, TypeError) else "")
        tb = e.__traceback__
        where = None
        while tb is not None:
            if tb.tb_frame.f_code.co_filename == fname:
                where = (tb.tb_frame.f_code.co_filename, tb.tb_lineno)
            tb = tb.tb_next
        obs["raised_at"] = where
    obs["tr"] = list(side.trlog)
    return obs


def _plain(v):
    if isinstance(v, (list, tuple)):
        return [type(v).__name__] + [_plain(x) for x in v]
    if isinstance(v, dict):
        return ["dict"] + [[_plain(k), _plain(x)] for k, x in v.items()]
    if isinstance(v, (int, str, float, bool, type(None))):
        return v
    return type(v).__name__


_count = itertools.count()


def run_case(context, form, special, kind, acc):
    src = make_source(context, form, special, kind)
    fname = f"<vtgen:c09:{next(_count)}>"
    linecache.cache[fname] = (len(src), None, src.splitlines(True), fname)
    found = []

    def report(disc, detail):
        case = {"context": context, "form": form, "special": special, "kind": kind}
        if acc is not None:
            acc.violation(case, disc, detail)
        else:
            found.append((disc, detail))

    try:
        compile(src, fname, "exec")
    except SyntaxError as e:
        if "+" in context or form in ("two-keywords-dependent", "name-rebound-by-later-argument"):
            # some depth-2 combinations are not Python (nor is a form with its own walrus inside a comprehension iterable / class body) (a walrus in a comprehension iterable, braces in an f-string)
            if acc is not None:
                acc.count("skipped_not_python")
            return found
        raise core.HarnessError(f"generated source is not valid Python ({context}/{form}/{special}/{kind}): {e}")
    rside, rcalls, rtested = build_ref(src, fname, kind, special)
    try:
        lside, lcalls, ltested = build_real(src, fname, kind, special)
        for c in lcalls:
            c()  # forces the build (and the rewriting)
            try:
                ovobj = c().__self__ if hasattr(c(), "__self__") else None
            except Exception:  # noqa
                pass
        built = True
    except Exception as e:  # noqa
        built = False
        build_exc = e
    if built:
        # the build is lazy: trigger it with a harmless call on a leaf type
        for c in lcalls:
            try:
                c()("warm")
            except Exception as e:  # noqa
                built = False
                build_exc = e
                break
    if acc is not None:
        acc.count("evaluations")
        acc.count("programs")
    if not built:
        report(f"valid-placement-refused:{type(build_exc).__name__}", {"exc": core.short_exc(build_exc)})
        return found
    for i, (rc, lc) in enumerate(zip(rcalls, lcalls)):
        r = observe(rside, rc, kind, context, fname)
        l = observe(lside, lc, kind, context, fname)
        if acc is not None:
            acc.count("evaluations")
            acc.count("nontrivial")
        if r != l:
            keys = [k for k in sorted(set(r) | set(l)) if r.get(k) != l.get(k)]
            report("behaviour-differs:" + "+".join(keys), {"instance": i, "original": {k: r.get(k) for k in keys}, "rewritten": {k: l.get(k) for k in keys}})
        # defaults / kwdefaults / closure cells are carried over unchanged
        rt, lt = rtested[i], ltested[i]
        if _plain(rt.__defaults__) != _plain(lt.__defaults__) or _plain(rt.__kwdefaults__) != _plain(lt.__kwdefaults__):
            report("defaults-differ", {"original": [_plain(rt.__defaults__), _plain(rt.__kwdefaults__)],
                                       "rewritten": [_plain(lt.__defaults__), _plain(lt.__kwdefaults__)]})
    return found


def cases(tier):
    for context in CONTEXTS:
        if context in THOROUGH_ONLY and tier == "quick":
            continue
        for form in FORMS_R:
            for special in SPECIALS:
                for kind in KINDS:
                    if kind == "strict-first" and form == "dstar":
                        continue  # the first position cannot be given by name there
                    if (kind == "closure-selfname") != (special == "closure-name"):
                        continue  # the closure-held own name only exists in that kind, and is what that kind is about
                    yield context, form, special, kind
    if tier != "quick":
        for context in CONTEXTS:
            for wrap in EXPR_WRAPS:
                for form in DEPTH2_FORMS:
                    for special in DEPTH2_SPECIALS:
                        for kind in DEPTH2_KINDS:
                            yield context + "+" + wrap, form, special, kind


def shard(shard, nshards, tier, seed):
    acc = core.Acc(PROP)
    for idx, (context, form, special, kind) in enumerate(cases(tier)):
        if idx % nshards != shard:
            continue
        run_case(context, form, special, kind, acc)
        acc.h("contexts", context.split("+")[0])
        acc.h("depth", 2 if "+" in context else 1)
        if idx % (nshards * 17) == shard:
            acc.sample({"context": context, "form": form, "special": special, "kind": kind, "source": make_source(context, form, special, kind)[-400:]})
        if idx % 40 == 0:
            gen.purge_globals()
            del gen._FACTORY_GLOBALS[8:]
            for k in [k for k in linecache.cache if k.startswith("<vtgen:c09:")]:
                del linecache.cache[k]
    return acc


def replay(case):
    return run_case(case["context"], case["form"], case["special"], case["kind"], None)


def main(tier):
    t0 = time.time()
    merged = core.run_sharded(__name__, "shard", tier)
    return core.finish(
        PROP, tier, "model_checking", merged, t0,
        rule=f"bodies from the grammar context[call]: {len(CONTEXTS)} expression / statement contexts (return, assignment, argument, every "
             "comprehension position, lambda, nested def and their defaults, conditional and boolean operators incl. short-circuit, "
             "f-string, subscript / attribute base, walrus, try/finally, try/except around a failing call, generator, for, with, "
             "decorator, raise after the call, while / assert / augmented and annotated assignment, starred and ** displays, slice, comparison chain, "
             "match subject, yield from, except / else / with bodies, method of a nested class, doubly nested def, lambda in a comprehension, "
             "nested comprehension, starred assignment, nonlocal target, class body, locals named type / isinstance / map, a call following a completed inner comprehension inside a comprehension iterable / second for clause / class body; thorough: and depth 2 = each of 12 expression contexts around the call inside every statement context, for recurse / call_next on three kinds) x 17 call forms (positional, two, keyword, a bare name that a later argument rebinds, two keywords in non-alphabetical order (also one depending on the other through a walrus), starred, second positional by name directly / through ** / with * and **, "
             "double-starred, nested in the first / a later / a keyword argument / both) x 5 special names (recurse, call_next, the function's own name as a global / as a closure variable, a renamed import) x 8 "
             "function kinds (module-level, a method whose own function is a closure variable between two others, a function whose first position is strictly positional (named differently by every method), closure instantiated twice, positional defaults, keyword-only defaults, method with "
             "self, lambda / generator expression in the signature); each built twice from one source text; compared: acceptance, result, exception, order and multiplicity of "
             "argument evaluation (tracer log), generator laziness, defaults, file and line of the raising frame",
        assumptions=["the reference side binds the special names to ordinary Python callables with the documented meaning and never "
                     "goes through the library's dispatcher"],
    )
