"""Further C01 families (value-dependent, Literal, type[...]); filled in as those explorers exist."""

FAMILIES = []


def replay(case):
    return []
