"""Further C01 families: value-dependent (C10 programs), Literal / built-in value types (C11), type[...] (C14)."""

from . import annot, gen
from .ref import RefMethod


def _run(acc, fam, space, classes, mspecs, calls, mkargs):
    from .c01 import judge

    try:
        prog = gen.Program(classes, mspecs, annotate=annot.annotate)
    except Exception:  # noqa  (build refusals are judged by the owning property)
        acc.count("skipped_build_errors")
        return
    methods = {ms["id"]: RefMethod(ms, i) for i, ms in enumerate(mspecs)}
    sem = annot.Sem(classes)
    acc.count("programs")
    acc.h("family", fam)
    for c in calls:
        args, kwargs = mkargs(c)
        prog.call(args, kwargs)
        judge(acc, prog.log, methods, sem, prog.defaults, args, kwargs,
              lambda: {"family": fam, "space": space, "methods": mspecs, "call": list(c) if isinstance(c, tuple) else c})


def family_dependent(tier, shard, nshards, acc):
    from . import c10

    for idx, (space, mspecs, vnames) in enumerate(c10.programs(tier)):
        if idx % nshards == shard:
            _run(acc, "dependent", space, c10.CLASSES, mspecs, vnames, c10.args_for)
            if idx % 100 == 0:
                gen.purge_globals()


def family_valuetypes(tier, shard, nshards, acc):
    from . import c11

    for idx, (T, comps, pos2, order) in enumerate(c11.programs(tier)):
        if idx % nshards == shard and (order is None or order == tuple(range(len(comps) + 1))):
            mspecs = c11.mspecs_for(T, comps, pos2, order)
            _run(acc, "valuetypes", "c11", c11.CLASSES, mspecs, [(n, y) for n, _ in c11.CORPUS for y in c11.second_values(pos2)],
                 lambda c: (((c11.VALUES[c[0]], c[1]) if pos2 else (c11.VALUES[c[0]],)), {}))
            if idx % 100 == 0:
                gen.purge_globals()


def family_types(tier, shard, nshards, acc):
    from . import c14

    classes = dict(c14.CLASSES, tuple=tuple)
    for idx, (space, mspecs, calls, _) in enumerate(c14.programs(tier)):
        if idx % nshards == shard and not space.startswith("1r"):
            _run(acc, "type-arguments", space, classes, mspecs, calls, _c14_args)
            if idx % 100 == 0:
                gen.purge_globals()


def _c14_args(c):
    from . import c14

    return (tuple(c14.value(n) for n in c if "=" not in n), {n.split("=", 1)[0]: c14.value(n.split("=", 1)[1]) for n in c if "=" in n})


FAMILIES = [family_dependent, family_valuetypes, family_types]


def replay(case):
    from . import c10, c11, c14
    from .c01 import monitor

    fam = case["family"]
    if fam == "dependent":
        classes, mk = c10.CLASSES, c10.args_for
    elif fam == "valuetypes":
        classes = c11.CLASSES
        pos2 = "y" in case["methods"][0]["types"]
        mk = lambda c: (((c11.VALUES[c[0]], c[1]) if pos2 else (c11.VALUES[c[0]],)), {})  # noqa
    else:
        classes, mk = dict(c14.CLASSES, tuple=tuple), _c14_args
    mspecs = case["methods"]
    prog = gen.Program(classes, mspecs, annotate=annot.annotate)
    methods = {ms["id"]: RefMethod(ms, i) for i, ms in enumerate(mspecs)}
    c = case["call"]
    args, kwargs = mk(tuple(c) if isinstance(c, list) else c)
    prog.call(args, kwargs)
    return monitor(prog.log, methods, annot.Sem(classes), prog.defaults)
