"""C02 -- static resolution follows priority-then-specificity (E1 vs RefOvld R1-R3)."""

import time

from . import core, gen, spaces
from .ref import RefOvld, StaticSem, kinds_match

PROP = "C02"


def check_program(h, mspecs, calls, acc, space, fresh_confirm=True):
    """Run every call of one program on the real code and compare with the reference."""
    prog = gen.Program(h.classes, mspecs)
    ref = RefOvld(mspecs, StaticSem(h.classes))
    for args_n, kw_n in calls:
        discs = check_call(prog, ref, h, args_n, kw_n, acc)
        if discs and fresh_confirm:
            # re-confirm on a fresh instance: a discrepancy that exists only on the shared
            # instance is a history effect (C04's subject), not C02's
            p2 = gen.Program(h.classes, mspecs)
            discs = check_call(p2, ref, h, args_n, kw_n, None)
        for disc, detail in discs:
            case = {"space": space, "hier": h.spec(), "methods": mspecs,
                    "call": {"args": list(args_n), "kwargs": dict(kw_n)}}
            acc.violation(case, disc, detail)


def check_call(prog, ref, h, args_n, kw_n, acc):
    args = tuple(h.instances[a] for a in args_n)
    kwargs = {k: h.instances[v] for k, v in kw_n.items()}
    rkind, rm = ref.decide(args, kwargs)
    out = prog.call(args, kwargs)
    okind, trace = out[0], out[1]
    discs = []
    if len(kwargs) >= 0 and ref.kw_order_twins(args, kwargs):
        # same signature up to the declaration order of keyword-only parameters: replacement or tie is unspecified;
        # only "no body runs on an error" and "a method that runs is applicable" are judged
        if acc is not None:
            acc.count("evaluations")
            acc.count("abstained_keyword_order_twins")
        if okind == "ret" and not ref.applicable(ref.by_id[trace[0]], args, kwargs):
            discs.append(("ret:inapplicable-method", {"trace": list(trace)}))
        elif okind != "ret" and trace:
            discs.append(("body-ran-on-error", {"expected": rkind, "trace": list(trace)}))
        return discs
    if acc is not None:
        acc.count("evaluations")
        acc.h("expected", rkind)
        acc.h("observed", okind)
        napp = sum(1 for m in ref.methods if ref.applicable(m, args, kwargs))
        if napp >= 2:
            acc.count("nontrivial")
    if not kinds_match(rkind, okind):
        discs.append((f"{rkind}->{okind}", {"expected": rkind, "expected_mid": rm.id if rkind == "ret" else None,
                                           "observed": okind, "trace": list(trace), "exc": out[2] if okind.startswith("exc") else None}))
    elif rkind == "ret" and trace != (rm.id,):
        discs.append(("ret:wrong-method", {"expected_mid": rm.id, "trace": list(trace)}))
    elif rkind != "ret" and trace:
        discs.append(("body-ran-on-error", {"expected": rkind, "trace": list(trace)}))
    if not kwargs and not discs:
        r = prog.resolve_mid(args)
        if rkind == "ret":
            if r != rm.id:
                discs.append(("resolve-mismatch", {"expected_mid": rm.id, "resolve": r}))
        elif not kinds_match(rkind, r if isinstance(r, str) else "ret"):
            discs.append(("resolve-mismatch", {"expected": rkind, "resolve": r}))
    return discs


def shard(shard, nshards, tier, seed):
    acc = core.Acc(PROP)
    k = 0
    for space, h, descs, calls in spaces.iter_programs(tier, shard, nshards):
        mspecs = spaces.mspecs_of(descs)
        acc.count("programs")
        acc.h("programs_per_space", space)
        check_program(h, mspecs, calls, acc, space)
        if k % 97 == 0:
            acc.sample({"space": space, "hier": h.spec(), "methods": mspecs, "calls": len(calls)})
        k += 1
        if k % 500 == 0:
            gen.purge_globals()
    return acc


def replay(case):
    if "flavoured" in case["hier"]:
        h = gen.FlavouredHierarchy.get(case["hier"]["flavoured"])
        prog = gen.Program(h.classes, case["methods"])
        ref = RefOvld(case["methods"], StaticSem(h.classes))
        return check_call(prog, ref, h, tuple(case["call"]["args"]), case["call"]["kwargs"], None)
    h = gen.Hierarchy.get([frozenset(int(b[1:]) for b in _anc(case["hier"], c)) for c in case["hier"]["classes"]])
    mspecs = case["methods"]
    prog = gen.Program(h.classes, mspecs)
    ref = RefOvld(mspecs, StaticSem(h.classes))
    return check_call(prog, ref, h, tuple(case["call"]["args"]), case["call"]["kwargs"], None)


def _anc(hier, c):
    out = set()
    todo = list(hier["bases"].get(c, []))
    while todo:
        b = todo.pop()
        if b not in out:
            out.add(b)
            todo.extend(hier["bases"].get(b, []))
    return out


def main(tier):
    t0 = time.time()
    merged = core.run_sharded(__name__, "shard", tier)
    total, per = spaces.space_size(tier)
    if not merged["errors"] and merged["n"].get("programs", 0) != total:
        merged["errors"].append(f"enumerated {merged['n'].get('programs')} programs, closed form says {total}")
    return core.finish(
        PROP, tier, "model_checking", merged, t0,
        rule="every program = (poset up to isomorphism, multiset of method descriptors (shape, class per "
             "parameter, priority)) of the listed spaces x every tuple of argument classes (and keyword) that "
             "some shape accepts; each executed on the real Ovld and compared with RefOvld R1-R3 + resolve(); "
             "non-trivial = at least two methods applicable to the call",
        assumptions=["reference model vt/ref.py (R1-R3) is the specification",
                     "iteration order of library sets fixed to the canonical order via hook H1 (other orders: C06)",
                     "one Ovld instance serves all calls of a program; violations re-confirmed on a fresh instance"],
        coverage_extra={"spaces": per, "programs": total, "bounds": spaces_desc(tier)},
    )


def spaces_desc(tier):
    return [s[0] for s in spaces.static_spaces(tier)]
