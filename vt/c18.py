"""C18 -- a failed build never leaves a half-built function in service (E5: fault-point enumeration)."""

import linecache
import os
import sys
import time

from . import annot, core, env, gen

PROP = "C18"

from ovld import Ovld, call_next  # noqa: E402

LIBDIR = os.path.join(os.path.abspath(env.SRC), "ovld") + os.sep


class Interrupt(BaseException):
    """The injected fault: nothing in the library can catch it by accident."""


# ----------------------------------------------------------------------------------------
# line-event counting / injection


class Tracer:
    def __init__(self, fire_at=None):
        self.n = 0
        self.fire_at = fire_at
        self.where = None

    def _local(self, frame, event, arg):
        if event == "line":
            self.n += 1
            if self.n == self.fire_at:
                code = frame.f_code
                line = linecache.getline(code.co_filename, frame.f_lineno).strip()
                self.where = (code.co_name, line)
                raise Interrupt()
        return self._local

    def __call__(self, frame, event, arg):
        fn = frame.f_code.co_filename
        if fn.startswith(LIBDIR) or fn.startswith("<ovld:"):
            return self._local
        return None


def traced(fn, fire_at=None):
    """Run fn() counting library line events; raise Interrupt at event ``fire_at``.
    -> (tracer, outcome) where outcome is ('ok', value) or ('exc', exception)"""
    tr = Tracer(fire_at)
    sys.settrace(tr)
    try:
        try:
            v = fn()
            out = ("ok", v)
        except BaseException as e:  # noqa
            out = ("exc", e)
    finally:
        sys.settrace(None)
    return tr, out


# ----------------------------------------------------------------------------------------
# scenarios


class K0:
    pass


class K1(K0):
    pass


CLASSES = {"K0": K0, "K1": K1, "int": int, "str": str, "O": object}
X = gen.SHAPES["x"]


def M(i, t, prio=0, body=None):
    m = {"id": i, "shape": X, "types": {"x": t}, "prio": prio}
    if body:
        m["body"] = body
    return m


BASE = [M(0, "O"), M(1, "K0", 0, "cn"), M(2, "K1", 1, "cn"), M(3, "int")]
DEP = [M(0, "O", -1), M(1, ["lit", 0]), M(2, ["lit", 1]), M(3, ["dep", "int", "p6"], 1, "cn"), M(4, "str")]
EXTRA = M(9, "str", 0)
EXTRA_CN = M(8, "K0", 2, "cn")
# registering this one changes the generated entry point itself (a second, optional positional parameter)
EXTRA_SHAPE = {"id": 7, "shape": gen.SHAPES["xy?"], "types": {"x": "K1", "y": "int"}, "prio": 3}
EXTRAS = (EXTRA, EXTRA_CN, EXTRA_SHAPE)

SIGMA = [("K0()", K0()), ("K1()", K1()), ("5", 5), ("'s'", "s")]
SIGMA2 = [(n, (v,)) for n, v in SIGMA] + [("K1(),3", (SIGMA[1][1], 3)), ("K0(),3", (SIGMA[0][1], 3))]
SIGMA_DEP = [("0", 0), ("1", 1), ("2", 2), ("'s'", "s"), ("1.5", 1.5)]


class Scenario:
    """setup() builds fresh real objects and returns a state dict; op(state) is the operation that is
    faulted; complete(state) lists the method sets that count as "the complete set" afterwards."""

    def __init__(self, name, mspecs, sigma, pre, op, after_sets, annotate=annot.annotate, carrier=None, post=None, entries=(0, 1)):
        self.name = name
        self.entries = entries  # which entry points the probes go through (0 = the dispatch function, 1 = Ovld.__call__)
        self.post = post  # an operation carried out (without fault) after the interrupted one and before the probes
        self.mspecs = mspecs
        self.sigma = sigma
        self.pre = pre
        self.op = op
        self.after_sets = after_sets
        self.annotate = annotate

    def setup(self):
        allspecs = self.mspecs + [m for m in EXTRAS if m["id"] not in {x["id"] for x in self.mspecs}]
        prog = gen.Program(CLASSES, allspecs, annotate=self.annotate, register=False)
        for m in self.mspecs:
            prog.ov.register(prog.fns[m["id"]], priority=m.get("prio", 0))
        st = {"prog": prog}
        self.pre(st)
        return st


def _noop(st):
    pass


def _first_call(entry, v):
    def op(st):
        p = st["prog"]
        fn = p.ov.dispatch if entry == "dispatch" else p.ov
        return fn(v)

    return op


def _warm(values):
    def pre(st):
        for v in values:
            st["prog"].call((v,), {})

    return pre


def _get(st):
    p = st["prog"]
    cls = type("Holder", (), {"f": p.ov})
    st["holder"] = cls()
    return st["holder"].f


def _resolve(v):
    return lambda st: st["prog"].ov.resolve(v)


def _register(mid):
    def op(st):
        p = st["prog"]
        m = [m for m in EXTRAS if m["id"] == mid][0]
        p.ov.register(p.fns[mid], priority=m.get("prio", 0))

    return op


def _unregister(mid):
    return lambda st: st["prog"].ov.unregister(st["prog"].fns[mid])


def _call(v):
    return lambda st: st["prog"].ov.dispatch(v)


def scenarios(tier):
    ids = lambda ms: tuple(m["id"] for m in ms)  # noqa
    k0, k1 = SIGMA[0][1], SIGMA[1][1]
    S = [
        Scenario("first-call/dispatch", BASE, SIGMA, _noop, _first_call("dispatch", k1), [ids(BASE)]),
        Scenario("cache-miss/call_next-chain", BASE, SIGMA, _warm([5]), _call(k1), [ids(BASE)]),
        Scenario("rebuild/register-changes-entry-point", BASE, SIGMA2, _warm([k1, 5]), _register(7), [ids(BASE), ids(BASE) + (7,)]),
        # the interrupted operation is followed by a registration: the function must then serve the new method set
        Scenario("first-call-interrupted/then-register", BASE, SIGMA2, _noop, _first_call("dispatch", k1), [ids(BASE) + (7,)], post=_register(7),
                 entries=(0,)),
        # an interrupted change of a function in use, followed by another (uninterrupted) change
        Scenario("register-interrupted/then-register", BASE, SIGMA[:4], _warm([k1, 5]), _register(8),
                 [ids(BASE) + (9,), ids(BASE) + (8, 9)], post=_register(9), entries=(0,)),
        CopyScenario("copy-first-call-interrupted/then-register-on-its-parent", BASE, SIGMA[:4], _noop, _first_call("ovld", k1),
                     [ids(BASE) + (9,)], post=_register_on_parent(9), entries=(0,)),
        LinkedScenario("rebuild/linked-children-of-unbuilt-parent", BASE, SIGMA[:3], _noop, _register_on_parent(8), [ids(BASE), ids(BASE) + (8,)]),
    ]
    if tier != "quick":
        S += [
            Scenario("first-call/Ovld.__call__", BASE, SIGMA, _noop, _first_call("ovld", k0), [ids(BASE)]),
            Scenario("rebuild/register-after-use", BASE, SIGMA, _warm([k1, 5]), _register(8), [ids(BASE), ids(BASE) + (8,)]),
            Scenario("cache-miss-interrupted/then-register", BASE, SIGMA2, _warm([5]), _call(k1), [ids(BASE) + (7,)], post=_register(7)),
            Scenario("register-interrupted/then-unregister", BASE, SIGMA, _warm([k1, 5]), _register(8), [tuple(i for i in ids(BASE) if i != 2), tuple(i for i in ids(BASE) if i != 2) + (8,)], post=_unregister(2)),
            Scenario("first-use/__get__", BASE, SIGMA, _noop, _get, [ids(BASE)]),
            Scenario("first-use/resolve", BASE, SIGMA, _noop, _resolve(k1), [ids(BASE)]),
            Scenario("rebuild/unregister-after-use", BASE, SIGMA, _warm([k1, 5]), _unregister(2), [ids(BASE), tuple(i for i in ids(BASE) if i != 2)]),
            Scenario("first-call/dependent", DEP, SIGMA_DEP, _noop, _first_call("dispatch", 2), [ids(DEP)]),
            Scenario("cache-miss/dependent", DEP, SIGMA_DEP, _warm(["s"]), _call(2), [ids(DEP)]),
            Scenario("cache-miss/second-tuple", BASE, SIGMA, _warm([k1]), _call(k0), [ids(BASE)]),
        ]
    else:
        S += [Scenario("cache-miss/dependent", DEP, SIGMA_DEP, _warm(["s"]), _call(2), [ids(DEP)])]
    return S


class LinkedScenario(Scenario):
    """A never-built parent with two built children created with linkback; the operation registers a method on
    the parent; the probed function is the SECOND child (rebuilt last)."""

    def setup(self):
        allspecs = self.mspecs + [m for m in EXTRAS if m["id"] not in {x["id"] for x in self.mspecs}]
        parent = gen.Program(CLASSES, allspecs, annotate=self.annotate, register=False)
        for m in self.mspecs:
            parent.ov.register(parent.fns[m["id"]], priority=m.get("prio", 0))
        c1 = parent.ov.copy(linkback=True)
        c2 = parent.ov.copy(linkback=True)
        child = gen.Program(CLASSES, [], annotate=self.annotate)
        child.ov = c2
        child.log = parent.log
        child.fref[0] = c2
        for c in (c1, c2):
            gen.run_call(getattr(c, "dispatch", c), (SIGMA[1][1],), {}, [])
            gen.run_call(getattr(c, "dispatch", c), (5,), {}, [])
        st = {"prog": child, "parent": parent, "c1": c1}
        return st


class CopyScenario(Scenario):
    """A parent and a plain (non-linked) copy of it, neither used yet.  The faulted operation is the copy's first call;
    afterwards a method is registered on the PARENT: if the copy is in service the parent must be locked (the
    registration is refused: nothing to probe), and if the registration is accepted the copy must serve the new set."""

    def setup(self):
        allspecs = self.mspecs + [m for m in EXTRAS if m["id"] not in {x["id"] for x in self.mspecs}]
        parent = gen.Program(CLASSES, allspecs, annotate=self.annotate, register=False)
        for m in self.mspecs:
            parent.ov.register(parent.fns[m["id"]], priority=m.get("prio", 0))
        c = parent.ov.copy()
        child = gen.Program(CLASSES, [], annotate=self.annotate)
        child.ov = c
        child.log = parent.log
        child.fref[0] = c
        return {"prog": child, "parent": parent}


def _register_on_parent(mid):
    def op(st):
        p = st["parent"]
        m = [m for m in EXTRAS if m["id"] == mid][0]
        p.ov.register(p.fns[mid], priority=m.get("prio", 0))

    return op


def norm(out):
    return (out[0], out[1], repr(out[2]) if out[0] == "ret" else None)


def reference_outcomes(sc, only=None):
    """Fault-free outcome of every probe for every method set that counts as complete
    (``only``: for exactly that method set)."""
    table = {}
    for ms_ids in ([only] if only is not None else sc.after_sets):
        allspecs = {m["id"]: m for m in sc.mspecs + list(EXTRAS)}
        specs = [allspecs[i] for i in ms_ids]
        for ci, (vn, v) in enumerate(sc.sigma):
            p = gen.Program(CLASSES, specs, annotate=sc.annotate)
            table.setdefault(ci, set()).add(norm(p.call(v if isinstance(v, tuple) else (v,), {})))
    return table


def registered_ids(p):
    """Which methods the function holds after the fault (in registration order), read from the library's own
    method table; None when that table cannot be read (then both the old and the new set count as complete)."""
    try:
        items = sorted(p.ov.defns.items(), key=lambda kv: kv[0].tiebreak)
        return tuple(gen.handler_key(fn)[1] for _, fn in items)
    except AttributeError:
        return None


def probe_entries(p):
    return [("dispatch", getattr(p.ov, "dispatch", p.ov)), ("Ovld.__call__", p.ov)]


def judge(expected, out):
    """(a) the complete behaviour, or (b) a loud non-dispatch failure."""
    n = norm(out)
    if n in expected:
        return None
    if out[0].startswith("exc:") or out[0] == "sigerror":
        return None
    return f"silent-partial-dispatch:{sorted(e[0] for e in expected)[0]}->{out[0]}"


# ----------------------------------------------------------------------------------------


def explore_scenario(sc, shard, nshards, acc):
    st = sc.setup()
    tr, out = traced(lambda: sc.op(st))
    N = tr.n
    if out[0] == "exc" and not isinstance(out[1], (TypeError,)):
        raise core.HarnessError(f"scenario {sc.name} fails fault-free: {out[1]!r}")
    expected_any = reference_outcomes(sc)
    by_set = {}
    acc.extra.setdefault("fault_points", {})[sc.name] = N
    for k in range(1 + shard, N + 1, nshards):
        where = None
        for ci, (vn, v) in enumerate(sc.sigma):
            for ei in sc.entries:
                st = sc.setup()
                tr, out = traced(lambda: sc.op(st), fire_at=k)
                if not (out[0] == "exc" and isinstance(out[1], Interrupt)):
                    raise core.HarnessError(f"{sc.name}: fault {k}/{N} did not surface ({out!r}); replay diverged")
                where = tr.where
                p = st["prog"]
                if sc.post is not None:
                    try:
                        sc.post(st)
                    except Exception:  # noqa  a later operation that fails loudly is not a silent partial dispatch
                        acc.count("post_operation_refused")
                        continue
                # the complete set = what is registered after the fault (an interrupted register / unregister
                # either took effect or did not)
                live = registered_ids(p)
                if live is None:
                    expected = expected_any
                else:
                    key = tuple(sorted(live))
                    if key not in by_set:
                        if not any(set(key) == set(a) for a in sc.after_sets):
                            raise core.HarnessError(f"{sc.name}: method table {key} after the fault is neither the old nor the new set")
                        by_set[key] = reference_outcomes(sc, only=[i for a in sc.after_sets if set(a) == set(key) for i in a])
                    expected = by_set[key]
                ename, fn = probe_entries(p)[ei]
                del p.log[:]
                res = gen.run_call(fn, v if isinstance(v, tuple) else (v,), {}, p.log)
                acc.count("evaluations")
                disc = judge(expected[ci], res)
                if disc:
                    acc.violation({"scenario": sc.name, "fault": {"at": list(where)}, "probe": vn, "entry": ename},
                                  disc, {"event": k, "of": N, "expected": sorted(map(str, expected[ci])), "observed": list(norm(res))})
        acc.count("fault_points")
        acc.count("nontrivial")
        acc.h("fault_function", where[0] if where else "?")
        if k % 211 == 1:
            acc.sample({"scenario": sc.name, "event": k, "of": N, "at": list(where)})
        if k % 50 == 0:
            gen.purge_globals()


# natural faults --------------------------------------------------------------------------


def _bad_methods():
    """name -> factory() of an invalid method (fresh function each time)"""
    src = {
        "conflicting-names": "def bad(y: int, x: str):\n    return 'bad'\n",
        "positional-keyword-clash": "def bad(z: int, *, x: str):\n    return 'bad'\n",
        "uncalled-call_next": "def bad(x: str):\n    f = call_next\n    return f(x)\n",
    }
    out = {}
    for name, s in src.items():
        def mk(s=s, name=name):
            fn = f"<vtgen:c18:{name}>"
            linecache.cache[fn] = (len(s), None, s.splitlines(True), fn)
            g = {"call_next": call_next, "__name__": "vtgen"}
            exec(compile(s, fn, "exec"), g, g)
            gen._FACTORY_GLOBALS.append(g)
            return g["bad"]

        out[name] = mk

    def unreadable():
        g = {"call_next": call_next, "__name__": "vtgen"}
        exec(compile("def bad(x: str):\n    return call_next(x)\n", "<vtgen:c18:nosource>", "exec"), g, g)
        linecache.cache.pop("<vtgen:c18:nosource>", None)
        return g["bad"]

    out["unreadable-source"] = unreadable
    return out


def natural_faults(acc, tier):
    bads = _bad_methods()
    expected_full = {}
    for ci, (vn, v) in enumerate(SIGMA):
        p = gen.Program(CLASSES, BASE, annotate=annot.annotate)
        expected_full[ci] = {norm(p.call((v,), {}))}
    for bname, mk in bads.items():
        for pos in range(len(BASE) + 1):
            for used_first in (False, True):
                for ci, (vn, v) in enumerate(SIGMA):
                    for ei in (0, 1):
                        prog = gen.Program(CLASSES, BASE, annotate=annot.annotate, register=False)
                        bad = mk()
                        order = [m["id"] for m in BASE]
                        seq = order[:pos] + ["bad"] + order[pos:]
                        if used_first:
                            # the valid methods first, use the function, then the invalid one arrives
                            seq = order + ["bad"]
                        reg_error = None
                        for s in seq:
                            if s == "bad" and used_first:
                                prog.call((SIGMA[1][1],), {})
                            try:
                                if s == "bad":
                                    prog.ov.register(bad)
                                else:
                                    prog.ov.register(prog.fns[s], priority=[m for m in BASE if m["id"] == s][0].get("prio", 0))
                            except Exception as e:  # noqa
                                reg_error = e
                        # first use after the invalid registration (may raise the configuration error)
                        prog.call((SIGMA[0][1],), {})
                        ename, fn = probe_entries(prog)[ei]
                        del prog.log[:]
                        res = gen.run_call(fn, (v,), {}, prog.log)
                        acc.count("evaluations")
                        acc.count("natural_fault_probes")
                        case = {"scenario": "natural:" + bname, "position": pos, "used_first": used_first, "probe": vn, "entry": ename}
                        bad_registered = any(f is bad for f in getattr(prog.ov, "_defns", {}).values()) if hasattr(prog.ov, "_defns") else True
                        if bad_registered:
                            # the complete set cannot be built: every call must fail loudly, never dispatch
                            if not (res[0].startswith("exc:") or res[0] == "sigerror"):
                                acc.violation(case, f"silent-dispatch-with-invalid-method:{res[0]}", {"observed": list(norm(res))})
                        else:
                            d = judge(expected_full[ci], res)
                            if d:
                                acc.violation(case, d, {"observed": list(norm(res)), "registration_error": core.short_exc(reg_error) if reg_error else None})
                        # once the offending method is removed the function works normally
                        try:
                            prog.ov.unregister(bad)
                        except Exception as e:  # noqa
                            acc.violation(dict(case, phase="unregister"), "cannot-remove-offending-method", {"exc": core.short_exc(e)})
                            continue
                        del prog.log[:]
                        res2 = gen.run_call(probe_entries(prog)[ei][1], (v,), {}, prog.log)
                        acc.count("evaluations")
                        if norm(res2) not in expected_full[ci]:
                            acc.violation(dict(case, phase="after-removal"), f"not-normal-after-removal:{res2[0]}",
                                          {"expected": sorted(map(str, expected_full[ci])), "observed": list(norm(res2)),
                                           "exc": res2[2] if res2[0].startswith("exc") else None})
                    gen.purge_globals()


# user hooks that raise on their n-th invocation ------------------------------------------------


class HookBoom(Exception):
    pass


def hook_faults(acc, tier, shard, nshards):
    """A user class predicate / __is_supertype__ / __type_order__ hook / dependent condition raises on its
    n-th invocation, for every n up to the number of invocations of the fault-free run."""
    from ovld import class_check

    state = {"n": 0, "boom": None}

    def tick(name):
        state["n"] += 1
        if state["boom"] is not None and state["n"] == state["boom"]:
            raise HookBoom(f"{name} #{state['n']}")

    @class_check
    def IsK(cls):
        tick("IsK")
        return isinstance(cls, type) and cls.__name__.startswith("K")

    class HM(type):
        def __is_supertype__(cls, other):
            tick("__is_supertype__")
            return isinstance(other, type) and issubclass(other, K0)

        def __type_order__(cls, other):
            tick("__type_order__")
            return NotImplemented

    class Hooked(metaclass=HM):
        pass

    def cond(v):
        tick("condition")
        return isinstance(v, int) and v > 1

    annot.PREDS["c18cond"] = cond
    classes = dict(CLASSES, IsK=IsK, Hooked=Hooked)
    mspecs = [M(0, "O", -1), M(1, "IsK", 0, "cn"), M(2, "Hooked", 1, "cn"), M(3, "K1", 2, "cn"), M(4, ["dep", "int", "c18cond"], 0, "cn"), M(5, "int")]
    sigma = SIGMA + [("2", 2)]
    ops = [("first call f(K1())", lambda p: p.ov.dispatch(SIGMA[1][1]), []),
           ("first call f(2)", lambda p: p.ov.dispatch(2), []),
           ("cache miss f(K0()) after f(5)", lambda p: p.ov.dispatch(SIGMA[0][1]), [5]),
           ("cache miss f(2) after f(K1())", lambda p: p.ov.dispatch(2), [SIGMA[1][1]])]

    def fresh(warm):
        state["boom"] = None
        p = gen.Program(classes, mspecs, annotate=annot.annotate)
        for v in warm:
            p.call((v,), {})
        return p

    expected = {}
    for ci, (vn, v) in enumerate(sigma):
        expected[ci] = {norm(fresh([]).call((v,), {}))}
    idx = 0
    for opname, op, warm in ops:
        p = fresh(warm)
        state["n"] = 0
        try:
            op(p)
        except Exception:  # noqa
            pass
        N = state["n"]
        acc.extra.setdefault("hook_invocations", {})[opname] = N
        for n in range(1, N + 1):
            idx += 1
            if idx % nshards != shard:
                continue
            for ci, (vn, v) in enumerate(sigma):
                for ei in (0, 1):
                    p = fresh(warm)
                    state["n"] = 0
                    state["boom"] = n
                    try:
                        op(p)
                        raised = False
                    except HookBoom:
                        raised = True
                    except Exception as e:  # noqa
                        raised = True
                    state["boom"] = None
                    ename, fn = probe_entries(p)[ei]
                    del p.log[:]
                    res = gen.run_call(fn, (v,), {}, p.log)
                    acc.count("evaluations")
                    acc.count("hook_fault_probes")
                    d = judge(expected[ci], res)
                    if d:
                        acc.violation({"scenario": "hook:" + opname, "fault": {"at": ["hook-invocation", str(n)]}, "probe": vn, "entry": ename},
                                      d, {"raised": raised, "expected": sorted(map(str, expected[ci])), "observed": list(norm(res))})
            acc.count("fault_points_hooks")
            acc.count("nontrivial")
            gen.purge_globals()


def shard(shard, nshards, tier, seed):
    acc = core.Acc(PROP)
    for sc in scenarios(tier):
        explore_scenario(sc, shard, nshards, acc)
    hook_faults(acc, tier, shard, nshards)
    if shard == 0:
        natural_faults(acc, tier)
    return acc


def replay(case):
    acc = core.Acc(PROP)
    if case["scenario"].startswith("natural:"):
        natural_faults(acc, "quick")
        return [(d, None) for _, d in acc.viol_ids]
    if case["scenario"].startswith("hook:"):
        hook_faults(acc, "quick", 0, 1)
        return [(r["disc"], r["detail"]) for r in acc.viol if r["case"]["fault"] == case["fault"] and r["case"]["probe"] == case["probe"]
                and r["case"]["scenario"] == case["scenario"] and r["case"]["entry"] == case["entry"]]
    for tier in ("quick", "thorough"):
        for sc in scenarios(tier):
            if sc.name == case["scenario"]:
                explore_scenario(sc, 0, 1, acc)
                hits = [r for r in acc.viol if r["case"]["fault"]["at"] == case["fault"]["at"] and r["case"]["probe"] == case["probe"]
                        and r["case"]["entry"] == case["entry"]]
                return [(r["disc"], r["detail"]) for r in hits]
    return []


def main(tier):
    t0 = time.time()
    merged = core.run_sharded(__name__, "shard", tier, nshards=64)
    fp = merged["extra"].get("fault_points", {})
    total = sum(fp.values()) if isinstance(fp, dict) else 0
    if not merged["errors"] and merged["n"].get("fault_points", 0) != total:
        merged["errors"].append(f"explored {merged['n'].get('fault_points')} fault points, scenarios have {total}")
    return core.finish(
        PROP, tier, "fault_enumeration", merged, t0,
        rule="for every scenario (first-use build through the dispatch function / Ovld.__call__ / __get__ / resolve; rebuild by register "
             "or unregister after use; cache-miss resolution incl. a call_next chain and a Literal / Dependent dispatcher) an "
             "uncatchable exception is raised at EVERY library line event of the operation (k = 1..N, N measured per scenario); after "
             "each fault every corpus value is probed through both entry points, each on its own replay; the probe must give the "
             "complete behaviour or fail loudly with a non-dispatch error; natural faults: four kinds of invalid method at every "
             "registration position, before and after first use, incl. normal behaviour after the offending method is removed; a user "
             "class predicate / __is_supertype__ / __type_order__ hook / dependent condition raising on its n-th invocation for every n; "
             "non-trivial = fault points (each changes where the operation stops)",
        assumptions=["CPython line events and exception injection from sys.settrace", "faults strike at line starts, one fault per execution"],
        coverage_extra={"exhaustive": True},
    )
