"""C14 -- types passed as arguments dispatch on type[...] by subtype (E1 vs R1-R3 with ref_subtype)."""

import abc
import enum
import itertools
import time
import typing

from . import annot, core, gen
from .ref import RefOvld, kinds_match

PROP = "C14"

T = typing.TypeVar("T")


class K0:
    pass


class K1(K0):
    pass


class K2(K0):
    pass


class K3:
    pass


class Thing(typing.Generic[T]):
    pass


# classes whose metaclass is not plain `type`: they are classes all the same
class KA(abc.ABC):
    pass


class KA1(KA):
    pass


class KV:
    pass


KA.register(KV)


class Meta(type):
    pass


class KM(K0, metaclass=Meta):
    pass


class KM1(KM):
    pass


class Colour(enum.Enum):
    RED = 1


@typing.runtime_checkable
class Proto(typing.Protocol):
    def pm(self): ...


CLASSES = {"K0": K0, "K1": K1, "K2": K2, "K3": K3, "Thing": Thing, "int": int, "O": object, "list": list, "dict": dict,
           "Iterable": typing.Iterable.__origin__, "Meta": Meta, "KA": KA, "KA1": KA1, "KV": KV, "KM": KM, "KM1": KM1, "Colour": Colour, "Proto": Proto}

POOL = [["type", "K0"], ["type", "K1"], ["type", "K2"], ["type", "K3"], "type", ["type", "O"], "O", ["type", "list"],
        ["type", ["gen", "list", "K0"]], ["type", ["gen", "list", "K1"]], ["type", ["gen", "dict", "K0", "K1"]],
        ["type", ["gen", "Iterable", "K0"]], ["type", ["gen", "Thing", "K0"]], ["type", ["gen", "list", ["gen", "list", "K0"]]], "K0",
        ["type", "KA"], ["type", "KM"], ["type", ["gen", "list", "KA"]],
        # a metaclass as the annotation: accepts the classes that are its instances, whether or not a type[...] method is around
        "Meta"]

PASSED = [
    ("K0", K0), ("K1", K1), ("K2", K2), ("K3", K3), ("int", int), ("list", list), ("dict", dict), ("object", object),
    ("list[K0]", list[K0]), ("list[K1]", list[K1]), ("list[K3]", list[K3]), ("list[list[K0]]", list[list[K0]]),
    ("list[list[K1]]", list[list[K1]]), ("list[list[K3]]", list[list[K3]]), ("dict[K0,K1]", dict[K0, K1]), ("dict[K1,K1]", dict[K1, K1]),
    ("dict[K0,K0]", dict[K0, K0]), ("typing.List[K1]", typing.List[K1]), ("typing.Any", typing.Any), ("Thing", Thing),
    ("Thing[K0]", Thing[K0]), ("Thing[K1]", Thing[K1]), ("Thing[K3]", Thing[K3]), ("Iterable[K1]", typing.Iterable[K1]),
    ("K0()", K0()), ("K1()", K1()), ("K3()", K3()), ("5", 5), ("[K0()]", [K0()]),
    ("KA", KA), ("KA1", KA1), ("KV", KV), ("KM", KM), ("KM1", KM1), ("Colour", Colour), ("Proto", Proto), ("list[KA1]", list[KA1]), ("list[KM]", list[KM]),
    ("Meta", Meta), ("KM()", KM()), ("Colour.RED", Colour.RED),
]
VALUES = dict(PASSED)


def programs(tier):
    x, xy = gen.SHAPES["x"], gen.SHAPES["xy"]
    sizes = (1, 2, 3)
    names = [n for n, _ in PASSED]
    for L in sizes:
        for combo in itertools.combinations(range(len(POOL)), L):
            yield "1:one-position", [{"id": i, "shape": x, "types": {"x": POOL[j]}, "prio": 0} for i, j in enumerate(combo)], [(n,) for n in names], None
    # delegation: every method but the last delegates with call_next; through recurse
    for combo in itertools.combinations(range(len(POOL)), 2 if tier == "quick" else 3):
        ms = [{"id": i, "shape": x, "types": {"x": POOL[j]}, "prio": 0, "body": "cn"} for i, j in enumerate(combo)]
        yield "1c:call_next", ms, [(n,) for n in names], None
    # ... delegating with f.next(...) (looked up through Ovld.next, not through the rewritten call site)
    for combo in itertools.combinations(range(len(POOL)), 2):
        ms = [{"id": i, "shape": x, "types": {"x": POOL[j]}, "prio": 0, "body": "next"} for i, j in enumerate(combo)]
        yield "1n:f.next", ms, [(n,) for n in names], None
    # ... with the argument given by name in the call_next (the run-time helper must use the same lookup as the entry point)
    for combo in itertools.combinations(range(len(POOL)), 2):
        ms = [{"id": i, "shape": x, "types": {"x": POOL[j]}, "prio": 0, "body": "cnk"} for i, j in enumerate(combo)]
        yield "1k:call_next-by-name", ms, [(n,) for n in names], None
    for combo in itertools.combinations(range(len(POOL)), 2):
        ms = [{"id": i, "shape": x, "types": {"x": POOL[j]}, "prio": 0} for i, j in enumerate(combo)]
        ms.append({"id": 9, "shape": x, "types": {"x": "tuple"}, "prio": 0, "body": "rec"})
        yield "1r:recurse", ms, [("(" + n + ",)",) for n in names], None
    # two positions: the second is an ordinary class-dispatched argument
    second = ["K0", "K1", "O"]
    sub = POOL if tier != "quick" else [POOL[i] for i in (0, 1, 4, 5, 6, 8, 9, 11, 14)]
    for (a, b) in itertools.combinations(sub, 2):
        for sa, sb in itertools.product(second, repeat=2):
            ms = [{"id": 0, "shape": xy, "types": {"x": a, "y": sa}, "prio": 0}, {"id": 1, "shape": xy, "types": {"x": b, "y": sb}, "prio": 0}]
            yield "2:two-positions", ms, [(n, m) for n in names for m in ("K0()", "K1()", "K3()")], None
    # type[...] in a named second position behind a strictly positional first one (differing names / positional-only)
    for first_shapes in (("x:N:0 y:N:0", "z:N:0 y:N:0"), ("x:P:0 y:N:0", "x:P:0 y:N:0"), ("x:N:0 y:N:0", "z:N:0 y:N:0 w:N:1")):
        for (a, b) in itertools.combinations(sub, 2):
            ms = [{"id": 0, "shape": first_shapes[0], "types": {first_shapes[0][0]: "K0", "y": a}, "prio": 0},
                  {"id": 1, "shape": first_shapes[1], "types": {first_shapes[1][0]: "O", "y": b}, "prio": 0}]
            yield "2c:type-second,strictly-positional-first", ms, [(m, n) for n in names for m in ("K0()", "K3()")], None
    # a parameter that is itself called "type" (the generated code must not confuse it with the builtin it uses)
    xt = "x:N:0 type:N:0"
    for (a, b) in itertools.combinations(sub, 2):
        ms = [{"id": 0, "shape": xt, "types": {"x": "K0", "type": a}, "prio": 0}, {"id": 1, "shape": xt, "types": {"x": "O", "type": b}, "prio": 0}]
        yield "2n:parameter-named-type", ms, [(m, n) for n in names for m in ("K0()", "K3()", "5")], None
    # type[...] on a keyword-only parameter
    xk = gen.SHAPES["x*k"]
    for (a, b) in itertools.combinations(sub, 2):
        for body in (None, "cn"):
            ms = [{"id": 0, "shape": xk, "types": {"x": "K0", "k": a}, "prio": 0}, {"id": 1, "shape": xk, "types": {"x": "O", "k": b}, "prio": 0}]
            if body:
                ms = [dict(m, body=body) for m in ms]
            yield "2k:type-keyword-only", ms, [(m, "k=" + n) for n in names for m in ("K0()", "K3()")], None
    # type[...] in the second position only
    for (a, b) in itertools.combinations(sub, 2):
        ms = [{"id": 0, "shape": xy, "types": {"x": "K0", "y": a}, "prio": 0}, {"id": 1, "shape": xy, "types": {"x": "O", "y": b}, "prio": 0}]
        yield "2b:type-second", ms, [(m, n) for n in names for m in ("K0()", "K3()")], None


def value(name):
    if name.startswith("(") and name.endswith(",)"):
        return (VALUES[name[1:-2]],)
    return VALUES[name]


def check_program(space, mspecs, calls, acc, only=None):
    classes = dict(CLASSES, tuple=tuple)
    sem = annot.Sem(classes)
    plain = [m for m in mspecs if m.get("body") != "rec"]
    ref = RefOvld(plain, sem)
    found = []
    try:
        prog = gen.Program(classes, mspecs, annotate=annot.annotate)
    except Exception as e:  # noqa
        if acc is not None:
            acc.violation({"space": space, "methods": mspecs, "call": None}, "build-refused", {"exc": core.short_exc(e)})
            return []
        return [("build-refused", core.short_exc(e))]
    from .c01 import monitor
    from .ref import RefMethod

    methods = {ms["id"]: RefMethod(ms, i) for i, ms in enumerate(mspecs)}
    for call in calls:
        if only is not None and tuple(call) != tuple(only):
            continue
        # an element "name=VALUE" is passed by keyword
        args = tuple(value(n) for n in call if "=" not in n)
        kwargs = {n.split("=", 1)[0]: value(n.split("=", 1)[1]) for n in call if "=" in n}
        rec = call[0].startswith("(")
        inner = (args[0][0],) if rec else args
        try:
            if any(m.get("body") in ("cn", "cnk", "next") for m in mspecs):
                rkind, rtrace = ref.run(inner, kwargs)
            else:
                rkind, rm = ref.decide(inner, kwargs)
                rtrace = (rm.id,) if rkind == "ret" else ()
        except annot.Abstain:
            rkind = None
        out = prog.call(args, kwargs)
        okind, trace = out[0], out[1]
        if rec:
            trace = tuple(t for t in trace if t != 9)
        disc, detail = None, {}
        if acc is not None:
            acc.count("evaluations")
            acc.h("expected", str(rkind))
            if rkind is not None and sum(1 for m in ref.methods if ref.applicable(m, inner, kwargs)) >= 2:
                acc.count("nontrivial")
        if rkind is None:
            if acc is not None:
                acc.count("abstained_order")
            bad = monitor(prog.log, methods, sem, prog.defaults) if not rec else []
            if bad:
                disc, detail = bad[0]
        elif not kinds_match(rkind, okind):
            disc = f"{rkind}->{okind}"
            detail = {"expected": [rkind, list(rtrace)], "observed": [okind, list(trace)], "exc": out[2] if okind.startswith("exc") else None}
        elif tuple(trace) != tuple(rtrace):
            disc = "ret:wrong-method"
            detail = {"expected": list(rtrace), "observed": list(trace)}
        if disc:
            case = {"space": space, "methods": mspecs, "call": list(call)}
            if acc is not None:
                acc.violation(case, disc, detail)
            else:
                found.append((disc, detail))
    return found


def shard(shard, nshards, tier, seed):
    acc = core.Acc(PROP)
    for idx, (space, mspecs, calls, _) in enumerate(programs(tier)):
        if idx % nshards != shard:
            continue
        acc.count("programs")
        acc.h("programs_per_space", space)
        check_program(space, mspecs, calls, acc)
        if idx % (nshards * 23) == shard:
            acc.sample({"space": space, "methods": mspecs, "calls": [list(c) for c in calls[:3]]})
        if acc.n["programs"] % 100 == 0:
            gen.purge_globals()
    gen.purge_globals()
    return acc


def replay(case):
    return check_program(case["space"], case["methods"], [tuple(case["call"])], None, only=tuple(case["call"]))


def main(tier):
    t0 = time.time()
    merged = core.run_sharded(__name__, "shard", tier)
    return core.finish(
        PROP, tier, "model_checking", merged, t0,
        rule="annotation pool {type[C] over a 4-class hierarchy, bare type, type[object], object, type[list], type[list[C]], "
             "type[dict[C,C']], type[Iterable[C]], type[Thing[C]] (user generic), type[list[list[C]]], an ordinary class, type[ABC], "
             "type[class with a custom metaclass], type[list[ABC]], a metaclass itself}; passed classes include ABCs, a virtual subclass, classes with a custom "
             "metaclass, an Enum, a runtime protocol, the metaclass itself; all method "
             "sets of <= 3 over one position, pairs over two positions (type[...] first or second, ordinary class in the other), "
             "a keyword-only type[...] parameter, a second parameter literally named 'type', call_next chains (arguments passed on positionally / by name) and f.next chains and recurse into tuple elements; passed objects: classes, parametrised generics, nested "
             "parametrisations, typing.List, typing.Any, plain instances; oracle R1-R3 with ref_subtype; abstains (monitor only) when "
             "two applicable type[...] annotations have unrelated generic origins; non-trivial = >= 2 applicable methods",
        assumptions=["ref_subtype of vt/annot.py: subclass for classes; same-or-subclass origin with argument-wise subtyping for generics"],
    )
