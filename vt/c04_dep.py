"""C04 family D: programs with Literal / Dependent methods (their per-type-tuple dispatchers are cached too)."""

import itertools

from . import annot, gen
from .c04 import CallModel, run_program  # noqa: F401

POOL = ["int", "O", "str", ["lit", 0], ["lit", 1], ["lit", 0, 1], ["dep", "int", "p3"], ["dep", "int", "p6"],
        ["dep", "O", "p1"], ["lit", "a"]]
SIGMA = [0, 1, 2, "a", 1.5, "b"]
CLASSES = {}


def programs(tier):
    sizes = (2, 3) if tier == "quick" else (2, 3, 4)
    bodies = ("plain", "cn")
    for L in sizes:
        for combo in itertools.combinations(range(len(POOL)), L):
            for body in bodies:
                yield f"d:dependent,L={L}", combo, body
    if tier != "quick":
        # two positions: dependent x static
        for a in range(len(POOL)):
            for b in range(len(POOL)):
                yield "d2:dependent,2pos", (a, b), "pair"


def mspecs_for(combo, body):
    if body == "pair":
        a, b = combo
        return [{"id": 0, "shape": gen.SHAPES["xy"], "types": {"x": POOL[a], "y": "O"}, "prio": 0},
                {"id": 1, "shape": gen.SHAPES["xy"], "types": {"x": "O", "y": POOL[b]}, "prio": 0},
                {"id": 2, "shape": gen.SHAPES["xy"], "types": {"x": "O", "y": "O"}, "prio": -1}]
    return [{"id": i, "shape": gen.SHAPES["x"], "types": {"x": POOL[j]}, "prio": 0, "body": body} for i, j in enumerate(combo)]


def sigma_for(body):
    if body == "pair":
        vals = [0, 1, "a", 1.5]
        names = [(repr(a), repr(b)) for a in vals for b in vals]
        return names, [((a, b), {}) for a in vals for b in vals]
    return [(repr(v),) for v in SIGMA], [((v,), {}) for v in SIGMA]


def shard_into(acc, shard, nshards, tier, idx0):
    idx = idx0
    for space, combo, body in programs(tier):
        idx += 1
        if idx % nshards != shard:
            continue
        mspecs = mspecs_for(combo, body)
        names, sigma = sigma_for(body)
        run_program(acc, space, None, CLASSES, mspecs, names, sigma, 3 if body == "pair" else None, body,
                    annotate=annot.annotate)
    gen.purge_globals()
    shard_kw(acc, shard, nshards, tier, idx)


def replay(case):
    import ast

    if case["space"].startswith("k:"):
        names, sigma = kw_sigma()
        model = KwModel(tuple(case["methods"]), sigma)
        p = model.build(tuple(case["history"]))
        out = model.apply(p, case["op"])
        return list(model.check(tuple(case["history"]), case["op"], out, p))

    mspecs = case["methods"]
    sigma = [(tuple(ast.literal_eval(x) for x in names), {}) for names in case["sigma"]]
    model = CallModel(CLASSES, mspecs, sigma, annot.annotate)
    p = model.build(tuple(case["history"]))
    out = model.apply(p, case["op"])
    return list(model.check(tuple(case["history"]), case["op"], out, p))


# ----------------------------------------------------------------------------------------
# family K: keyword-only typed parameters, and recurse / call_next sites that pass them in another order

import linecache  # noqa: E402

from ovld import Ovld, call_next, recurse  # noqa: E402


class KA:
    pass


class KB(KA):
    pass


_KSRC = '''
def h1(x: str, *, a: KB, b: object):
    LOG.append((1, None))
    return ("h1",)


def h2(x: str, *, a: object, b: KA):
    LOG.append((2, None))
    return ("h2",)


def h3(x: str, *, a: KA, b: KB):
    LOG.append((3, None))
    return ("h3",)


def swap(x: int, *, a: object, b: object):
    LOG.append((4, None))
    return ("swap", recurse(str(x), b=b, a=a))


def nxt(x: str, *, a: KB, b: KB):
    LOG.append((5, None))
    return ("nxt", call_next(x, b=b, a=a))


def ha(x: str, *, a: KA):
    LOG.append((6, None))
    return ("ha",)
'''
_KFN = "<vtgen:c04:kw>"
linecache.cache[_KFN] = (len(_KSRC), None, _KSRC.splitlines(True), _KFN)

KPOOL = ["h1", "h2", "h3", "swap", "nxt", "ha"]  # ha takes the keyword a only: calls with {a} and with {a, b} alternate
KVALS = {"A": KA(), "B": KB(), "O": object()}


class KwProgram:
    def __init__(self, names):
        self.log = []
        glb = {"LOG": self.log, "KA": KA, "KB": KB, "recurse": recurse, "call_next": call_next, "__name__": "vtgen"}
        exec(compile(_KSRC, _KFN, "exec"), glb, glb)
        gen._FACTORY_GLOBALS.append(glb)
        self.ov = Ovld()
        for n in names:
            self.ov.register(glb[n], priority=1 if n == "nxt" else 0)

    def call(self, args, kwargs):
        del self.log[:]
        return gen.run_call(getattr(self.ov, "dispatch", self.ov), args, kwargs, self.log)


class KwModel(CallModel):
    def __init__(self, names, sigma):
        self.names = names
        self.sigma = sigma
        self.baseline = {}
        from .c04 import norm
        for i in range(len(sigma)):
            self.baseline[i] = norm(self.fresh().call(*self.sigma[i]))
        from . import e2
        self.use_snapshot = e2.snapshot_ovld(self.fresh().ov) is not None

    def fresh(self):
        return KwProgram(self.names)


def kw_sigma():
    names, sigma = [], []
    for x in ("s", 1):
        for a in "OAB":
            for b in "OAB":
                names.append((repr(x), f"a={a}", f"b={b}"))
                sigma.append(((x,), {"a": KVALS[a], "b": KVALS[b]}))
    for a in "OAB":
        names.append(("'s'", f"a={a}"))
        sigma.append((("s",), {"a": KVALS[a]}))
    return names, sigma


def kw_programs(tier):
    import itertools as it
    for L in (2, 3, 4):
        for combo in it.combinations(KPOOL, L):
            if "swap" in combo or "nxt" in combo or "ha" in combo:
                yield combo


def shard_kw(acc, shard, nshards, tier, idx0):
    from . import e2
    idx = idx0
    names, sigma = kw_sigma()
    for combo in kw_programs(tier):
        idx += 1
        if idx % nshards != shard:
            continue
        model = KwModel(combo, sigma)

        def on_violation(hist, op, disc, detail, combo=combo):
            acc.violation({"space": "k:keyword-order", "methods": list(combo), "sigma": [list(n) for n in names], "history": list(hist), "op": op},
                          disc, {"first_call_ever": list(detail["first_call_ever"][:2]), "after_history": list(detail["after_history"][:2])})

        st = e2.bfs(model, 2 if tier == "quick" else 3, acc, on_violation=on_violation, merge_every=4)
        acc.count("programs")
        acc.h("programs_per_space", "k:keyword-order")
        acc.count("nontrivial", st["states"])
        gen.purge_globals()
        del gen._FACTORY_GLOBALS[8:]
