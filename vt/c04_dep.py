"""C04 family D: programs with Literal / Dependent methods (their per-type-tuple dispatchers are cached too)."""

import itertools

from . import annot, gen
from .c04 import CallModel, run_program  # noqa: F401

POOL = ["int", "O", "str", ["lit", 0], ["lit", 1], ["lit", 0, 1], ["dep", "int", "p3"], ["dep", "int", "p6"],
        ["dep", "O", "p1"], ["lit", "a"]]
SIGMA = [0, 1, 2, "a", 1.5, "b"]
CLASSES = {}


def programs(tier):
    sizes = (2, 3) if tier == "quick" else (2, 3, 4)
    bodies = ("plain", "cn")
    for L in sizes:
        for combo in itertools.combinations(range(len(POOL)), L):
            for body in bodies:
                yield f"d:dependent,L={L}", combo, body
    if tier != "quick":
        # two positions: dependent x static
        for a in range(len(POOL)):
            for b in range(len(POOL)):
                yield "d2:dependent,2pos", (a, b), "pair"


def mspecs_for(combo, body):
    if body == "pair":
        a, b = combo
        return [{"id": 0, "shape": gen.SHAPES["xy"], "types": {"x": POOL[a], "y": "O"}, "prio": 0},
                {"id": 1, "shape": gen.SHAPES["xy"], "types": {"x": "O", "y": POOL[b]}, "prio": 0},
                {"id": 2, "shape": gen.SHAPES["xy"], "types": {"x": "O", "y": "O"}, "prio": -1}]
    return [{"id": i, "shape": gen.SHAPES["x"], "types": {"x": POOL[j]}, "prio": 0, "body": body} for i, j in enumerate(combo)]


def sigma_for(body):
    if body == "pair":
        vals = [0, 1, "a", 1.5]
        names = [(repr(a), repr(b)) for a in vals for b in vals]
        return names, [((a, b), {}) for a in vals for b in vals]
    return [(repr(v),) for v in SIGMA], [((v,), {}) for v in SIGMA]


def shard_into(acc, shard, nshards, tier, idx0):
    idx = idx0
    for space, combo, body in programs(tier):
        idx += 1
        if idx % nshards != shard:
            continue
        mspecs = mspecs_for(combo, body)
        names, sigma = sigma_for(body)
        run_program(acc, space, None, CLASSES, mspecs, names, sigma, 3 if body == "pair" else None, body,
                    annotate=annot.annotate)
    gen.purge_globals()


def replay(case):
    import ast

    mspecs = case["methods"]
    sigma = [(tuple(ast.literal_eval(x) for x in names), {}) for names in case["sigma"]]
    model = CallModel(CLASSES, mspecs, sigma, annot.annotate)
    p = model.build(tuple(case["history"]))
    out = model.apply(p, case["op"])
    return list(model.check(tuple(case["history"]), case["op"], out, p))
