"""C20 -- each argument-type combination is resolved at most once between changes (E2 + counters)."""

import itertools
import time
from collections import Counter

from . import core, e2, gen

PROP = "C20"

import ovld  # noqa: E402
import ovld.dependent as odep  # noqa: E402
import ovld.mro as omro  # noqa: E402
import ovld.typemap as otm  # noqa: E402
import ovld.types as otypes  # noqa: E402
from ovld import Ovld, class_check, parametrized_class_check  # noqa: E402

COUNTS = Counter()

# ----------------------------------------------------------------------------------------
# counters on the resolution entry points, attached from outside (no source change)


def _wrap(name, fn):
    def wrapper(*a, **k):
        COUNTS[name] += 1
        return fn(*a, **k)

    wrapper.__name__ = getattr(fn, "__name__", name)
    wrapper.__wrapped__ = fn
    return wrapper


_installed = False


def install_counters():
    global _installed
    if _installed:
        return
    _installed = True
    for fname in ("typeorder", "subclasscheck", "sort_types"):
        orig = getattr(omro, fname)
        w = _wrap(fname, orig)
        for mod in (omro, otm, otypes, odep, ovld):
            if getattr(mod, fname, None) is orig:
                setattr(mod, fname, w)
    orig_missing = otm.TypeMap.__missing__
    otm.TypeMap.__missing__ = _wrap("TypeMap.__missing__", orig_missing)
    orig_mm = otm.MultiTypeMap.__missing__
    otm.MultiTypeMap.__missing__ = _wrap("MultiTypeMap.__missing__", orig_mm)
    orig_res = otm.MultiTypeMap.resolve
    otm.MultiTypeMap.resolve = _wrap("MultiTypeMap.resolve", orig_res)


# ----------------------------------------------------------------------------------------
# user-defined predicates and hooks (each consultation is counted)


class K0:
    pass


class K1(K0):
    pass


class Z:
    pass


@class_check
def IsK(cls):
    COUNTS["hook:IsK"] += 1
    return isinstance(cls, type) and cls.__name__.startswith("K")


@parametrized_class_check
def Named(cls, name):
    COUNTS["hook:Named"] += 1
    return isinstance(cls, type) and any(c.__name__ == name for c in cls.__mro__)


class HookedMeta(type):
    def __type_order__(cls, other):
        COUNTS["hook:__type_order__"] += 1
        return NotImplemented

    def __is_supertype__(cls, other):
        COUNTS["hook:__is_supertype__"] += 1
        return isinstance(other, type) and issubclass(other, K0)


class Hooked(metaclass=HookedMeta):
    pass


class SubHookMeta(type):
    def __is_subtype__(cls, other):
        COUNTS["hook:__is_subtype__"] += 1
        return NotImplemented


class S(K0, metaclass=SubHookMeta):
    """An argument class that answers __is_subtype__ (consulted when S is looked up)."""


class BoomMeta(type):
    def __is_subtype__(cls, other):
        COUNTS["hook:boom"] += 1
        raise RuntimeError("user hook failed")


class Boom(metaclass=BoomMeta):
    """Looking this class up makes a user hook raise during resolution."""


ANN = {"IsK": IsK, "NamedK1": Named["K1"], "Hooked": Hooked, "K0": K0, "K1": K1, "O": object, "list": list, "int": int, "S": S}

POOL = [
    {"id": 0, "shape": gen.SHAPES["x"], "types": {"x": "IsK"}, "prio": 0},
    {"id": 1, "shape": gen.SHAPES["x"], "types": {"x": "NamedK1"}, "prio": 1},
    {"id": 2, "shape": gen.SHAPES["x"], "types": {"x": "Hooked"}, "prio": 2},
    {"id": 3, "shape": gen.SHAPES["x"], "types": {"x": "K0"}, "prio": 3},
    {"id": 4, "shape": gen.SHAPES["x"], "types": {"x": "O"}, "prio": -1},
    {"id": 5, "shape": gen.SHAPES["x"], "types": {"x": "list"}, "prio": 0, "body": "rec"},
    {"id": 6, "shape": gen.SHAPES["x"], "types": {"x": "K1"}, "prio": 5, "body": "cn"},
    {"id": 7, "shape": gen.SHAPES["x"], "types": {"x": "IsK"}, "prio": 6, "body": "cn"},
]
VALUES = {"k0": K0(), "k1": K1(), "z": Z(), "1": 1, "s": S(), "boom": Boom()}
# methods that call_next with a value they do not accept themselves (the fresh-call path of call_next)
POOL.append({"id": 8, "shape": gen.SHAPES["x"], "types": {"x": "int"}, "prio": 0, "body": "cnv", "env": {"__v": VALUES["k1"]}})
POOL.append({"id": 9, "shape": gen.SHAPES["x"], "types": {"x": "list"}, "prio": 1, "body": "cnv", "env": {"__v": VALUES["k0"]}})
# value-dependent types whose BOUND is a user class predicate: the value condition is evaluated on every call by
# design (not counted), the bound's predicate is a resolution-time question and must not be asked again on warm calls
N_POOL = len(POOL)
ANN["DepIsK"] = ovld.Dependent[IsK, lambda v: not isinstance(v, K1)]
ANN["DepNamedK1"] = ovld.Dependent[Named["K1"], lambda v: True]
ANN["DepHooked"] = ovld.Dependent[Hooked, lambda v: True]
POOL.append({"id": 10, "shape": gen.SHAPES["x"], "types": {"x": "DepIsK"}, "prio": 7, "body": "cn"})
POOL.append({"id": 11, "shape": gen.SHAPES["x"], "types": {"x": "DepNamedK1"}, "prio": 8})
POOL.append({"id": 12, "shape": gen.SHAPES["x"], "types": {"x": "DepHooked"}, "prio": 0})
# classes passed as arguments (both are instances of `type`: one argument-type combination), and a wrapper that hands over
# through the run-time helper of call_next
VALUES["K0cls"] = K0
VALUES["K1cls"] = K1
POOL.append({"id": 13, "shape": gen.SHAPES["x"], "types": {"x": "O"}, "prio": 9, "body": "cnstar"})
# a second predicate at the priority of IsK: both accept K0 / K1, so the rank below a unique winner is a tie
ANN["NamedK0"] = Named["K0"]
POOL.append({"id": 14, "shape": gen.SHAPES["x"], "types": {"x": "NamedK0"}, "prio": 0})
VALUES["[k0,k1]"] = [VALUES["k0"], VALUES["k1"]]
VALUES["[[k1],1]"] = [[VALUES["k1"]], 1]
SIGMA_NAMES = ["k0", "k1", "z", "1", "s", "[k0,k1]", "[[k1],1]"]


def norm(out):
    return (out[0], out[1], repr(out[2]))


class World:
    def __init__(self, combo):
        self.prog = gen.Program(ANN, [POOL[i] for i in combo], annotate=lambda t, c: c[t], register=False)
        self.combo = combo
        self.warm = set()  # calls that returned successfully since the last change
        self.live = set()


class CountModel(e2.Model):
    def __init__(self, combo, sigma):
        self.combo = combo
        self.sigma = sigma

    def initial(self):
        return [tuple(("reg", i) for i in self.combo)]

    def ops(self, hist):
        live = set()
        for op in hist:
            if op[0] == "reg":
                live.add(op[1])
            elif op[0] == "unreg":
                live.discard(op[1])
        for i in self.combo:
            yield ("unreg", i) if i in live else ("reg", i)
        for c in range(len(self.sigma)):
            yield ("call", c)
        if live and (not hist or hist[-1][0] != "badreg"):
            yield ("badreg", 0)  # refused registration: the method set does not change, warm combinations stay warm

    def do(self, w, op):
        p = w.prog
        if op[0] == "reg":
            p.ov.register(p.fns[op[1]], priority=POOL[op[1]].get("prio", 0))
            w.warm.clear()
            return ("ok",)
        if op[0] == "unreg":
            p.ov.unregister(p.fns[op[1]])
            w.warm.clear()
            return ("ok",)
        if op[0] == "badreg":
            try:
                p.ov.register(_unsupported)
            except TypeError:
                return ("refused",)
            w.warm.clear()
            return ("accepted",)
        c = op[1]
        # warm = a call with the same argument-type combination(s) succeeded since the last change (not necessarily
        # the same value: two different classes passed as arguments are both of type `type`)
        sig_c = tsig(VALUES[self.sigma[c]])
        was_warm = c in w.warm or any(tsig(VALUES[self.sigma[o]]) == sig_c for o in w.warm)
        before = sum(COUNTS.values())
        snap = Counter(COUNTS)
        out = norm(p.call((VALUES[self.sigma[c]],), {}))
        delta = sum(COUNTS.values()) - before
        if out[0] == "ret":
            w.warm.add(c)
        if was_warm:
            # entering the cache-miss handler is not yet a computation (the fresh-call path of call_next
            # does two dictionary look-ups there); resolve / sort_types / typeorder / hooks are
            d = {k: v - snap.get(k, 0) for k, v in COUNTS.items() if v != snap.get(k, 0) and k != "MultiTypeMap.__missing__"}
            return (out, "warm", tuple(sorted(d.items())))
        return (out, "cold", None)

    def build(self, hist):
        w = World(self.combo)
        for op in hist:
            try:
                self.do(w, op)
            except Exception:  # noqa
                pass
        return w

    def apply(self, w, op):
        try:
            return self.do(w, op)
        except Exception as e:  # noqa
            return ("raised", core.short_exc(e)[:80])

    def canon(self, w, hist):
        s = e2.snapshot_ovld(w.prog.ov)
        return (s if s is not None else hist, tuple(sorted(w.warm)))

    def check(self, hist, op, out, w):
        if op[0] == "call" and len(out) == 3 and out[1] == "warm":
            if out[2]:
                yield ("recomputed-on-warm-call", {"consulted": dict(out[2]), "call": self.sigma[op[1]]})
            if out[0][0] != "ret":
                yield ("warm-call-failed", {"out": list(out[0][:2])})


def _unsupported(x, **kwargs):
    return "unsupported"


def programs(tier):
    sizes = (2, 3) if tier == "quick" else (2, 3, 4)
    depth = 3 if tier == "quick" else 5
    for L in sizes:
        for combo in itertools.combinations(range(N_POOL), L):
            yield combo, depth
    # the dependent-with-predicate-bound methods: alone, with each other, and with every single other method
    extra = list(range(N_POOL, len(POOL)))
    for e in extra:
        yield (e,), depth
        for j in range(N_POOL):
            yield (j, e), depth
    for a, b in itertools.combinations(extra, 2):
        yield (a, b), depth
        yield (4, a, b), depth
    # a unique winner above a tied rank (IsK and Named["K0"] at one priority)
    for top in (3, 6, 7, 10):
        yield (0, top, 14), depth
    yield (0, 3, 6, 14), depth


def sigma_for(combo):
    s = ["k0", "k1", "z", "1", "s", "boom"]
    if 5 in combo or 9 in combo:
        s += ["[k0,k1]", "[[k1],1]"]
    if 13 in combo:
        s += ["K0cls", "K1cls"]
    return s


def tsig(v):
    """The argument-type combination(s) a call involves: its class, and recursively those of list elements."""
    return ("list", tuple(tsig(e) for e in v)) if isinstance(v, list) else type(v)


def shard(shard, nshards, tier, seed):
    install_counters()
    acc = core.Acc(PROP)
    for idx, (combo, depth) in enumerate(programs(tier)):
        if idx % nshards != shard:
            continue
        sigma = sigma_for(combo)
        model = CountModel(combo, sigma)

        def on_violation(hist, op, disc, detail):
            acc.violation({"pool": list(combo), "sigma": sigma, "history": [list(o) for o in hist], "op": list(op)}, disc, detail)

        before = sum(COUNTS.values())
        st = e2.bfs(model, depth, acc, on_violation=on_violation, merge_every=4)
        acc.count("programs")
        acc.count("hook_consultations_total", sum(COUNTS.values()) - before)
        acc.count("nontrivial", st["states"])
        if idx % 7 == 0:
            acc.sample({"pool": [POOL[i]["types"]["x"] for i in combo], "sigma": sigma, "states": st["states"], "transitions": st["transitions"]})
        gen.purge_globals()
    for k, v in COUNTS.items():
        acc.h("consultations", k, v)
    return acc


def replay(case):
    install_counters()
    model = CountModel(tuple(case["pool"]), case["sigma"])
    hist = tuple(tuple(o) for o in case["history"])
    op = tuple(case["op"])
    w = model.build(hist)
    out = model.apply(w, op)
    return list(model.check(hist, op, out, w))


def main(tier):
    t0 = time.time()
    merged = core.run_sharded(__name__, "shard", tier)
    if not merged["errors"] and not any(k.startswith("hook:") and v for k, v in merged["hist"].get("consultations", {}).items()):
        merged["errors"].append("no user hook was ever consulted: vacuous")
    return core.finish(
        PROP, tier, "model_checking", merged, t0,
        rule="explicit-state BFS over call / register / unregister histories for every 2-3 (thorough 4) subset of a pool of methods "
             "annotated with user class predicates (class_check, parametrized_class_check), a class with __type_order__ / "
             "__is_supertype__ hooks, an argument class with __is_subtype__, value-dependent types whose bound is such a predicate / hooked class, ordinary classes, a recurse walker and call_next "
             "wrappers; every hook and the resolution entry points (typeorder, subclasscheck, sort_types, TypeMap.__missing__, "
             "MultiTypeMap.__missing__/resolve) are counted; invariant on every call that already succeeded since the last "
             "change: all counters unchanged (incl. its nested recurse / call_next lookups)",
        assumptions=["counters are attached from outside by rebinding module attributes (names imported with from-import are rebound too)"],
        states_key="states", transitions_key="transitions",
    )
