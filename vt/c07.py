"""C07 -- call_next / f.next walk down the resolution order one method at a time (E1 vs R4)."""

import itertools
import time

from . import core, gen, spaces
from .gen import SHAPES, Hierarchy, posets
from .ref import RefOvld, StaticSem, kinds_match

PROP = "C07"

from ovld import Ovld  # noqa: E402


def c07_spaces(tier):
    H = lambda lo, hi: [Hierarchy.get(a) for n in range(lo, hi + 1) for a in posets(n)]  # noqa
    sp = []
    if tier == "quick":
        # (name, hiers, shapes, prios, lo, hi, distinct, masks, flavours, carriers)
        sp.append(("a:1pos,n<=4,L<=3,prio", H(0, 4), ["x"], (0, 1), 1, 3, False, "all+single", ("cn", "next"), ("plain",)))
        sp.append(("a2:1pos,n<=3,L<=3,carriers", H(0, 3), ["x"], (0, 1), 2, 3, False, "all+single", ("cn",), ("self", "variant", "mixin")))
        sp.append(("v:1pos,n<=3,L<=3,cnv", H(1, 3), ["x"], (0,), 2, 3, False, "cnv", ("cnv",), ("plain",)))
        sp.append(("b:2pos,n<=2,L<=3,prio", H(0, 2), ["xy"], (0, 1), 1, 3, False, "all+single", ("cn",), ("plain",)))
        sp.append(("v2:2pos,n<=2,L<=2,cnv2", H(1, 2), ["xy"], (0,), 2, 2, False, "cnv", ("cnv2",), ("plain",)))
        sp.append(("c:2pos,n=4,L=3,distinct", H(4, 4), ["xy"], (0,), 3, 3, True, "all", ("cn",), ("plain",)))
        sp.append(("k:kw,n<=1,L<=3", H(0, 1), ["x", "x*k", "xy"], (0, 1), 1, 3, False, "all", ("cn",), ("plain",)))
    else:
        sp.append(("A:1pos,n<=5,L<=3,prio", H(0, 5), ["x"], (0, 1), 1, 3, False, "all+single", ("cn", "next"), ("plain", "self")))
        sp.append(("A4:1pos,n<=4,L=4,prio", H(0, 4), ["x"], (0, 1), 4, 4, False, "all+single", ("cn",), ("plain",)))
        sp.append(("A2:1pos,n<=4,L<=3,carriers", H(0, 4), ["x"], (0, 1), 2, 3, False, "all+single", ("cn", "next"), ("variant", "mixin")))
        sp.append(("V:1pos,n<=4,L<=3,cnv", H(1, 4), ["x"], (0, 1), 2, 3, False, "cnv", ("cnv",), ("plain",)))
        sp.append(("B:2pos,n<=3,L<=3,prio", H(0, 3), ["xy"], (0, 1), 1, 3, False, "all+single", ("cn", "next"), ("plain",)))
        sp.append(("V2:2pos,n<=3,L<=3,cnv2", H(1, 3), ["xy"], (0,), 2, 3, False, "cnv", ("cnv2",), ("plain",)))
        sp.append(("C:2pos,n=4,L=3,distinct", H(4, 4), ["xy"], (0,), 3, 3, True, "all+single", ("cn",), ("plain",)))
        sp.append(("K:kw,n<=2,L<=3", H(0, 2), ["x", "x*k", "xy"], (0, 1), 1, 3, False, "all+single", ("cn",), ("plain",)))
    return sp


def masks_for(L, kind, flavour, h):
    """Body assignment per method."""
    if kind == "all":
        return [tuple([flavour] * L)]
    if kind == "all+single":
        out = [tuple([flavour] * L)]
        if L > 1:
            for j in range(L):
                out.append(tuple("plain" if i == j else flavour for i in range(L)))
        return out
    if kind == "cnv":
        # one method re-dispatches on another value; handled by the caller (needs the value)
        return [tuple(flavour if i == j else "plain" for i in range(L)) for j in range(L)]
    raise core.HarnessError(kind)


def iter_cases(tier, shard, nshards):
    idx = 0
    for (name, hiers, shapes, prios, lo, hi, distinct, mkind, flavours, carriers) in c07_spaces(tier):
        for h in hiers:
            ds = spaces.descriptors(h.type_names, shapes, prios)
            calls = None
            for descs in spaces.multisets(ds, lo, hi, distinct):
                for flavour in flavours:
                    if flavour == "next" and any(d[0] not in ("x", "xy", "xyz") for d in descs):
                        continue
                    for mask in masks_for(len(descs), mkind, flavour, h):
                        for carrier in carriers:
                            if flavour == "next" and carrier == "self":
                                continue  # F.next(...) is documented for functions; it has no way to pass self
                            vs = h.type_names if flavour == "cnv" else list(itertools.product(h.type_names, repeat=2)) if flavour == "cnv2" else [None]
                            for v in vs:
                                if idx % nshards == shard:
                                    if calls is None:
                                        calls = spaces.calls_for(h.type_names, shapes)
                                    yield name, h, descs, mask, carrier, v, calls
                                idx += 1


def build(h, mspecs, carrier):
    """Build the real function for a carrier; returns (callable taking (*args, **kw), log)."""
    log = []
    fref = [None]
    fns = []
    defaults = {}
    for ms in mspecs:
        fn, d = gen.make_method(ms, h.classes, log, fref, gen.annotate_static)
        fns.append(fn)
        defaults[ms["id"]] = d
    build.last_defaults = defaults
    if carrier in ("plain", "self"):
        ov = Ovld()
        for ms, fn in zip(mspecs, fns):
            ov.register(fn, priority=ms.get("prio", 0))
        top = ov
    elif carrier == "variant":
        half = (len(fns) + 1) // 2
        base = Ovld()
        for ms, fn in list(zip(mspecs, fns))[:half]:
            base.register(fn, priority=ms.get("prio", 0))
        top = base.copy()
        for ms, fn in list(zip(mspecs, fns))[half:]:
            top.register(fn, priority=ms.get("prio", 0))
    elif carrier == "mixin":
        p1, p2 = Ovld(), Ovld()
        for i, (ms, fn) in enumerate(zip(mspecs, fns)):
            (p1 if i % 2 == 0 else p2).register(fn, priority=ms.get("prio", 0))
        top = Ovld(mixins=[p1, p2])
    else:
        raise core.HarnessError(carrier)
    fref[0] = top
    if carrier == "self":
        top.compile()
        cls = type("Carrier", (), {"f": top.dispatch, "__module__": "vtgen"})
        inst = cls()
        fn = inst.f
    else:
        fn = getattr(top, "dispatch", top)
    return fn, log


def effective_mspecs(mspecs, carrier):
    """R6: which methods the top function has, in overlay order (own replaces parent's identical signature)."""
    if carrier in ("plain", "self"):
        return list(mspecs)
    ref = RefOvld(mspecs, None)
    if carrier == "variant":
        half = (len(mspecs) + 1) // 2
        layers = [list(range(half)), list(range(half, len(mspecs)))]
    else:
        layers = [[i for i in range(len(mspecs)) if i % 2 == 0], [i for i in range(len(mspecs)) if i % 2 == 1]]
    # Within one function an identical signature registered again pushes the old one down (both
    # stay, later wins).  Across functions (parents overlaid left to right, then own), a
    # signature defined in a later layer replaces every definition of it from earlier layers.
    seen_sigs = []
    for layer in layers:
        ks = [ref.methods[i].sigkey for i in layer]
        for prev in seen_sigs:
            if any(prev.count(k) >= 2 for k in ks):
                # a parent holds a replaced (pushed-down) twin of a signature that a later layer
                # redefines: whether the pushed-down one survives is not specified -> abstain
                return None
        seen_sigs.append(ks)
    keep = []
    for li, layer in enumerate(layers):
        sigs_here = {ref.methods[i].sigkey for i in layer}
        keep = [i for i in keep if ref.methods[i].sigkey not in sigs_here]
        keep.extend(layer)
    return [mspecs[i] for i in sorted(keep)]


def make_mspecs(descs, mask, carrier, v):
    ms = spaces.mspecs_of(descs, body=list(mask))
    for m in ms:
        if carrier == "self":
            m["shape"] = "self:S:0 " + m["shape"]
        if m.get("body") in ("cnv", "cnv2"):
            m["env"] = {"__v": v}
    return ms


def check_case(h, mspecs, carrier, calls, acc, space):
    # values for cnv must be real instances on the implementation side and names on the spec side
    real = [dict(m) for m in mspecs]
    for m in real:
        if m.get("body") == "cnv":
            m["env"] = {"__v": h.instances[m["env"]["__v"]]}
        elif m.get("body") == "cnv2":
            m["env"] = {"__v": tuple(h.instances[x] for x in m["env"]["__v"])}
    eff = effective_mspecs(real, carrier)
    if eff is None:
        if acc is not None:
            acc.count("skipped_unspecified_overlay")
        return []
    ref = RefOvld(eff, StaticSem(h.classes))
    fn, log = build(h, real, carrier)
    fresh_each = any(m.get("body") in ("cnv", "cnv2") for m in mspecs)
    for args_n, kw_n in calls:
        if fresh_each:
            # a type tuple first seen through call_next behaves differently from a warmed one:
            # every call of these programs gets a brand-new function
            fn, log = build(h, real, carrier)
        args = tuple(h.instances[a] for a in args_n)
        kwargs = {k: h.instances[x] for k, x in kw_n.items()}
        rkind, rtrace = ref.run(args, kwargs)
        if rkind == "diverge":
            if acc is not None:
                acc.count("skipped_divergent")
            continue
        del log[:]
        out = gen.run_call(fn, args, kwargs, log)
        okind, otrace = out[0], out[1]
        disc = None
        if not kinds_match(rkind, okind):
            disc = f"{rkind}->{okind}"
        elif tuple(otrace) != tuple(rtrace):
            disc = "chain-differs"
        elif len(set(otrace)) != len(otrace) and not any(m.get("body") in ("cnv", "cnv2") for m in mspecs):
            disc = "method-visited-twice"
        if acc is not None:
            acc.count("evaluations")
            acc.h("expected_end", rkind)
            acc.h("chain_length", min(len(rtrace), 5))
            if len(rtrace) >= 2:
                acc.count("nontrivial")
        if disc:
            case = {"space": space, "hier": h.spec(), "methods": mspecs, "carrier": carrier,
                    "call": {"args": list(args_n), "kwargs": dict(kw_n)}}
            detail = {"expected": [rkind, list(rtrace)], "observed": [okind, list(otrace)], "exc": out[2] if okind.startswith("exc") else None}
            if acc is not None:
                acc.violation(case, disc, detail)
            else:
                return [(disc, detail)]
    return []


def shard(shard, nshards, tier, seed):
    acc = core.Acc(PROP)
    k = 0
    for space, h, descs, mask, carrier, v, calls in iter_cases(tier, shard, nshards):
        mspecs = make_mspecs(descs, mask, carrier, v)
        acc.count("programs")
        acc.h("programs_per_space", space)
        acc.h("carrier", carrier)
        check_case(h, mspecs, carrier, calls, acc, space)
        if k % 211 == 0:
            acc.sample({"space": space, "hier": h.spec(), "methods": mspecs, "carrier": carrier, "calls": len(calls)})
        k += 1
        if k % 200 == 0:
            gen.purge_globals()
    return acc


def replay(case):
    from .c02 import _anc

    h = Hierarchy.get([frozenset(int(b[1:]) for b in _anc(case["hier"], c)) for c in case["hier"]["classes"]])
    call = (tuple(case["call"]["args"]), case["call"]["kwargs"])
    return check_case(h, case["methods"], case["carrier"], [call], None, case["space"])


def main(tier):
    t0 = time.time()
    merged = core.run_sharded(__name__, "shard", tier)
    return core.finish(
        PROP, tier, "model_checking", merged, t0,
        rule="every static program of the listed spaces x delegation mask (all methods delegate / all but one / exactly "
             "one re-dispatches on another value) x flavour (call_next, f.next, call_next(other value)) x carrier "
             "(function, method with self, variant, mixins) x every argument tuple; the logged order of entered bodies "
             "and the end kind are compared with the reference chain R4; non-trivial = chain of length >= 2",
        assumptions=["reference model vt/ref.py (R1-R4, R6 for carriers)",
                     "canonical set-iteration order via hook H1"],
        coverage_extra={"bounds": [s[0] for s in c07_spaces(tier)]},
    )
