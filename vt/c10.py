"""C10 -- value-dependent methods run exactly when their condition holds (E1 vs R1-R3 + dependent clauses)."""

import itertools
import linecache
import time

from . import annot, core, gen
from .ref import RefOvld, kinds_match

PROP = "C10"


class Tagged:
    pass


class K0:
    def __init__(self, tag=None):
        self.tag = tag

    def __repr__(self):
        return f"{type(self).__name__}({self.tag})"


class K1(K0):
    pass


class Z:
    tag = "qa"

    def __repr__(self):
        return "Z()"


CLASSES = {"K0": K0, "K1": K1, "Z": Z, "int": int, "str": str, "O": object, "bool": bool, "float": float}
INT_VALUES = [("0", 0), ("1", 1), ("2", 2), ("3", 3), ("'a'", "a"), ("1.5", 1.5)]
MORE_VALUES = [("4", 4), ("True", True), ("5", 5)]
OBJ_VALUES = [("K0()", K0()), ("K0(qa)", K0("qa")), ("K0(qb)", K0("qb")), ("K1(qa)", K1("qa")), ("K1()", K1()), ("Z()", Z()), ("1", 1)]
VALUES = dict(INT_VALUES + OBJ_VALUES + MORE_VALUES)

PREDS8 = [f"p{m}" for m in range(8)]


def int_deps(bounds=("int", "O")):
    return [["dep", b, p] for b in bounds for p in PREDS8]


def obj_deps():
    return [["dep", b, p] for b in ("K0", "K1") for p in ("qa", "qb")]


def programs(tier):
    """yield (space, mspecs, value names); the space name may end in '@<flavour>' = how the dependent types are written"""
    yield from programs0(tier)
    for fl in annot.DEP_FLAVOURS[1:]:
        for space, ms, vals in programs0("quick"):
            if space.split(":")[0] in ("i", "i1", "ii", "iii", "iv", "v", "ix", "x", "xi") and (tier != "quick" or space.split(":")[0] in ("i1", "ii", "iv", "v", "ix", "x", "xi")):
                yield f"{space}@{fl}", ms, vals


def programs0(tier):
    x = gen.SHAPES["x"]
    xy = gen.SHAPES["xy"]
    ivals = [n for n, _ in INT_VALUES]
    ovals = [n for n, _ in OBJ_VALUES]

    def M(i, shape, types, prio=0):
        return {"id": i, "shape": shape, "types": types, "prio": prio}

    statics_i = [None, "int", "O", "str", "bool"]
    deps = int_deps()
    # (i) one position, <= 2 dependent methods + <= 1 static, priorities
    for d1, d2 in itertools.combinations_with_replacement(deps, 2):
        for st in statics_i:
            for p1, p2 in ((0, 0), (1, 0), (0, 1)):
                ms = [M(0, x, {"x": d1}, p1), M(1, x, {"x": d2}, p2)]
                if st:
                    ms.append(M(2, x, {"x": st}))
                yield "i:int,2dep+static", ms, ivals
    for d1 in deps:
        for st in statics_i:
            ms = [M(0, x, {"x": d1})] + ([M(1, x, {"x": st})] if st else [])
            yield "i1:int,1dep+static", ms, ivals
    if True:
        sub = [["dep", b, p] for b in ("int", "O") for p in ("p1", "p3", "p5", "p6", "p7")] if tier == "quick" else deps
        for d1, d2, d3 in itertools.combinations_with_replacement(sub, 3):
            for st in (None, "int", "O") if tier == "quick" else (None, "int", "O", "bool", "str"):
                ms = [M(0, x, {"x": d1}), M(1, x, {"x": d2}), M(2, x, {"x": d3})] + ([M(3, x, {"x": st})] if st else [])
                yield "i3:int,3dep+static", ms, ivals
    # (ii) class bounds with attribute predicates
    od = obj_deps()
    for d1, d2 in itertools.combinations_with_replacement(od, 2):
        for st in (None, "K0", "K1", "O", "Z"):
            for p1, p2 in ((0, 0), (1, 0)):
                ms = [M(0, x, {"x": d1}, p1), M(1, x, {"x": d2}, p2)] + ([M(2, x, {"x": st})] if st else [])
                yield "ii:class-bounds", ms, ovals
    # (iii) two positions: dependent x static / dependent x dependent
    few = [["dep", "int", p] for p in (("p1", "p3", "p6") if tier == "quick" else ("p1", "p2", "p3", "p5", "p6"))] + ["int", "O"]
    for a, b, c, d in itertools.product(few, repeat=4):
        if tier == "quick" and (isinstance(a, str) and isinstance(b, str) and isinstance(c, str) and isinstance(d, str)):
            continue
        ms = [M(0, xy, {"x": a, "y": b}), M(1, xy, {"x": c, "y": d}), M(2, xy, {"x": "O", "y": "O"}, -1)]
        yield "iii:two-positions", ms, [(u, v) for u in ("0", "1", "2", "'a'") for v in ("0", "1", "'a'")]
    # (iv) keyword-only dependent parameter
    xk = gen.SHAPES["x*k"]
    for d1 in [["dep", "int", p] for p in ("p1", "p3", "p6")]:
        for d2 in [["dep", "int", p] for p in ("p1", "p2")] + ["int", "O"]:
            ms = [M(0, xk, {"x": "O", "k": d1}), M(1, xk, {"x": "O", "k": d2}), M(2, xk, {"x": "O", "k": "O"}, -1)]
            yield "iv:keyword-only", ms, [("kw", v) for v in ("0", "1", "2", "'a'")]
    # (vi) Literal types (value-dependent too) mixed with each other and with Dependent: overlapping ones tie on the shared value
    lpool = [["lit", 0], ["lit", 0, 1], ["lit", 1, 2], ["lit", 2], ["lit", 1, "a"], ["dep", "int", "p3"], ["dep", "int", "p6"], "int", "O", "str"]
    for L in (2, 3):
        for combo in itertools.combinations(lpool, L):
            if all(isinstance(c, str) for c in combo):
                continue
            yield "vi:literal-mixtures", [M(i, x, {"x": c}) for i, c in enumerate(combo)], ivals
    # (viii) a rank of >= 4 single-valued Literal methods (lookup-table strategy) of which SOME carry a second
    # value-dependent condition on another position; calls inside and outside that condition
    seconds = [["lit", 1], ["dep", "int", "p1"], ["dep", "int", "p5"], ["dep", "O", "p3"]]
    for n in (4, 5):
        subsets = [c for r in range(1, n) for c in itertools.combinations(range(n), r)]
        if n == 5:
            subsets = [c for c in subsets if len(c) == 1 or (tier != "quick" and len(c) == 2)]
        for S in subsets:
            for c2 in seconds if tier != "quick" or n == 4 else seconds[:2]:
                for fb in (None, ("int", "int", 0), ("O", "O", -1)):
                    for rev in (False, True):
                        ms = [M(i, xy, {"x": ["lit", i], "y": c2 if i in S else "int"}) for i in range(n)]
                        if rev:
                            ms.reverse()
                        if fb:
                            ms.append(M(9, xy, {"x": fb[0], "y": fb[1]}, fb[2]))
                        yield "viii:keyed-table+second-condition", ms, [(u, v) for u in ("0", "1", "2", "3", "4", "'a'") for v in ("0", "1", "2")]
    # (v) union of two dependent types with different bounds
    for pi in ("p1", "p3", "p6"):
        for po in ("qa", "qb"):
            for st in (None, "O", "int", "K0"):
                u = ["ounion", ["dep", "int", pi], ["dep", "K0", po]]
                ms = [M(0, x, {"x": u})] + ([M(1, x, {"x": st}, -1)] if st else [])
                yield "v:union-of-dependents", ms, ivals + ovals


    # (x) intersections with dependent members: runs iff every member holds
    for pi, pj in itertools.combinations(("p1", "p3", "p5", "p6"), 2):
        for b1, b2 in (("int", "int"), ("int", "O"), ("O", "int")):
            for st in (None, "O", "int"):
                for members in ([["dep", b1, pi], ["dep", b2, pj]], [["dep", b2, pj], ["dep", b1, pi]]):
                    ms = [M(0, x, {"x": ["inter"] + members})] + ([M(1, x, {"x": st}, -1)] if st else [])
                    yield "x:intersection-of-dependents", ms, ivals + ["True", "4"]
    for po in ("qa", "qb"):
        for other in ("K1", "K0", "Z", ["dep", "K1", po], ["dep", "K0", "qa"]):
            for st in (None, "O", "K0"):
                for members in ([["dep", "K0", po], other], [other, ["dep", "K0", po]]):
                    ms = [M(0, x, {"x": ["inter"] + members})] + ([M(1, x, {"x": st}, -1)] if st else [])
                    yield "x:intersection-of-dependents", ms, ovals
    # (xi) combinations of combinations: every value-dependent member two levels down; an intersection of a plain
    # class with a dependent type of WIDER bound as one arm of a union whose other arm admits the argument's class
    nested = []
    for pi in ("p2", "p3", "p6"):
        nested += [["ounion", "str", ["inter", "int", ["dep", "int", pi]]], ["inter", "O", ["inter", "int", ["dep", "int", pi]]],
                   ["ounion", ["inter", "str", ["dep", "O", pi]], ["lit", 0]], ["ounion", ["inter", "bool", ["dep", "int", pi]], ["lit", 2]],
                   ["ounion", ["lit", 0], ["inter", "bool", ["dep", "O", pi]]]]
    nested += [["ounion", ["ounion", ["lit", 0], ["lit", 1]], "str"], ["ounion", ["inter", "K1", ["dep", "K0", "qa"]], ["dep", "K0", "qb"]],
               ["ounion", ["dep", "K0", "qb"], ["inter", "K1", ["dep", "K0", "qa"]]], ["ounion", "Z", ["inter", "K1", ["dep", "K0", "qa"]]]]
    for t in nested:
        for st in (None, "O", "int", "K0"):
            ms = [M(0, x, {"x": t})] + ([M(1, x, {"x": st}, -1)] if st else [])
            # (True == 1: whether a bool matches an int Literal is a matter of Python equality vs typing's reading, not judged)
            yield "xi:nested-combinations", ms, ivals + ovals + (["4"] if '"lit"' in annot.canon(t) else ["True", "4"])
    # (ix) union with a dependent member whose bound is strictly narrower than another member (or that member's bound)
    nw = []
    for pi in ("p2", "p3", "p6"):
        nw += [(["dep", "bool", pi], "int"), (["dep", "int", pi], "O")]
        for pj in ("p1", "p4", "p5"):
            nw += [(["dep", "bool", pi], ["dep", "int", pj]), (["dep", "int", pi], ["dep", "O", pj])]
    nw += [(["dep", "K1", "qa"], "K0"), (["dep", "K1", "qa"], ["dep", "K0", "qb"]), (["dep", "K1", "qb"], ["dep", "K0", "qa"])]
    for narrow, wide in nw:
        for members in ([narrow, wide], [wide, narrow]):
            for st in (None, "O", "int", "K0"):
                ms = [M(0, x, {"x": ["ounion"] + members})] + ([M(1, x, {"x": st}, -1)] if st else [])
                yield "ix:union-narrow+wide-member", ms, ivals + ovals + ["True", "4", "5"]


def args_for(vname):
    if isinstance(vname, tuple) and vname[0] == "kw":
        return (VALUES["1"],), {"k": VALUES[vname[1]]}
    if isinstance(vname, tuple):
        return tuple(VALUES[v] for v in vname), {}
    return (VALUES[vname],), {}


def pred_bounds(mspecs):
    """pred name -> bound spec, when used with exactly one bound in this program."""
    seen = {}

    def walk(t):
        if isinstance(t, list):
            if t[0] == "dep":
                seen.setdefault(t[2], set()).add(annot.canon(t[1]))
            for r in t[1:]:
                walk(r)

    for m in mspecs:
        for t in m["types"].values():
            walk(t)
    return {p: bs for p, bs in seen.items() if len(bs) == 1}


def check_program(space, mspecs, vnames, acc, only=None):
    annot.DEP_FLAVOUR[0] = space.split("@")[1] if "@" in space else "Dependent"
    try:
        return _check_program(space, mspecs, vnames, acc, only)
    finally:
        annot.DEP_FLAVOUR[0] = "Dependent"


def _check_program(space, mspecs, vnames, acc, only=None):
    sem = annot.Sem(CLASSES)
    ref = RefOvld(mspecs, sem)
    found = []
    try:
        prog = gen.Program(CLASSES, mspecs, annotate=annot.annotate)
    except Exception as e:  # noqa
        disc = "build-refused"
        if acc is not None:
            acc.violation({"space": space, "methods": mspecs, "call": None}, disc, {"exc": core.short_exc(e)})
            return []
        return [(disc, core.short_exc(e))]
    pb = pred_bounds(mspecs)
    import json

    for vn in vnames:
        if only is not None and vn != only:
            continue
        args, kwargs = args_for(vn)
        try:
            rkind, rm = ref.decide(args, kwargs)
        except annot.Abstain:
            if acc is not None:
                acc.count("abstained")
            continue
        del annot.PRED_LOG[:]
        out = prog.call(args, kwargs)
        okind, trace = out[0], out[1]
        disc = None
        detail = {"expected": rkind, "expected_mid": rm.id if rkind == "ret" else None, "observed": okind, "trace": list(trace),
                  "exc": out[2] if okind.startswith("exc") else None}
        if not kinds_match(rkind, okind):
            disc = f"{rkind}->{okind}"
        elif rkind == "ret" and trace != (rm.id,):
            disc = "ret:wrong-method"
        elif rkind != "ret" and trace:
            disc = "body-ran-on-error"
        # the user's condition is never evaluated outside its bound
        for pname, v in annot.PRED_LOG:
            if pname in pb:
                b = json.loads(next(iter(pb[pname])))
                if not sem.instance(v, b):
                    disc = disc or "condition-evaluated-outside-bound"
                    detail["outside"] = [pname, repr(v)]
        if acc is not None:
            acc.count("evaluations")
            acc.h("expected", rkind)
            napp = sum(1 for m in ref.methods if ref.applicable(m, args, kwargs))
            if napp >= 2:
                acc.count("nontrivial")
        if disc:
            case = {"space": space, "methods": mspecs, "call": list(vn) if isinstance(vn, tuple) else vn}
            if acc is not None:
                acc.violation(case, disc, detail)
            else:
                found.append((disc, detail))
    return found


# ----------------------------------------------------------------------------------------
# documented wildcards: a parametrised @dependent_check type may take typing.Any for some parameters; a type with
# wildcards is more general than one with values there (docs/dependent.md); patterns with incomparable wildcard sets
# are unordered, so a value matching both is ambiguous


def wildcard_cases(tier):
    import typing

    A = typing.Any
    slots = [(2, A), (3, A), (4, A)]
    patterns = [p for p in itertools.product(*slots)]
    sizes = (2,) if tier == "quick" else (2, 3)
    for L in sizes:
        for combo in itertools.combinations(range(len(patterns)), L):
            yield [patterns[i] for i in combo]


def run_wildcards(pats, acc):
    import typing

    from ovld import Ovld, dependent_check

    A = typing.Any

    @dependent_check
    def Shape(value: tuple, *shape):
        return len(value) == len(shape) and all(s2 is A or s1 == s2 for s1, s2 in zip(value, shape))

    log = []
    ov = Ovld()

    def mk(i, ann):
        def m(x):
            log.append(i)
        m.__annotations__ = {"x": ann}
        m.__name__ = m.__qualname__ = f"m{i}"
        return m

    found = []
    names = [[("Any" if e is A else e) for e in p] for p in pats]
    try:
        for i, p in enumerate(pats):
            ov.register(mk(i, Shape[p]))
        ov.register(mk(99, object), priority=-1)
    except Exception as e:  # noqa
        found.append(("wildcards:build-refused", {"exc": core.short_exc(e)[:120]}))
    wild = [frozenset(i for i, e in enumerate(p) if e is A) for p in pats]
    for v in itertools.product((2, 9), (3, 9), (4, 9)) if not found else ():
        app = [i for i, p in enumerate(pats) if all(e is A or e == x for e, x in zip(p, v))]
        win = [i for i in app if all(j == i or wild[i] < wild[j] for j in app)]
        want = ("ret", [win[0]]) if len(win) == 1 else ("ret", [99]) if not app else ("ambiguous", [])
        del log[:]
        try:
            ov(v)
            got = ("ret", list(log))
        except Exception as e:  # noqa
            got = (core.classify_exception(e, log), list(log))
        if acc is not None:
            acc.count("evaluations")
            if len(app) >= 2:
                acc.count("nontrivial")
        if got != want:
            found.append((f"wildcards:{want[0]}->{got[0]}", {"patterns": names, "value": list(v), "expected": list(want), "got": list(got)}))
    if acc is not None:
        for disc, detail in found:
            acc.violation({"wildcards": names, "value": detail.get("value")}, disc, detail)
    return found


def strategies(acc):
    for k, v in list(linecache.cache.items()):
        if k.startswith("<ovld:") and v[2] and "__DEPENDENT_DISPATCH__" in v[2][0]:
            src = "".join(v[2])
            s = "table" if ".get(" in src else "counting" if "SUMMATION" in src else "if-chain"
            acc.h("dispatcher_strategy", s)


def shard(shard, nshards, tier, seed):
    acc = core.Acc(PROP)
    for idx, (space, mspecs, vnames) in enumerate(programs(tier)):
        if idx % nshards != shard:
            continue
        acc.count("programs")
        acc.h("programs_per_space", space.split("@")[0])
        acc.h("dependent_written_as", space.split("@")[1] if "@" in space else "Dependent")
        check_program(space, mspecs, vnames, acc)
        if idx % (nshards * 29) == shard:
            acc.sample({"space": space, "methods": mspecs, "values": vnames[:4]})
        if acc.n["programs"] % 100 == 0:
            strategies(acc)
            gen.purge_globals()
    strategies(acc)
    gen.purge_globals()
    for idx, pats in enumerate(wildcard_cases(tier)):
        if idx % nshards == shard:
            run_wildcards(pats, acc)
    return acc


def replay(case):
    if "wildcards" in case:
        import typing

        pats = [tuple(typing.Any if e == "Any" else e for e in p) for p in case["wildcards"]]
        return [f for f in run_wildcards(pats, None) if f[1].get("value") == case.get("value")]
    c = case["call"]
    vn = tuple(c) if isinstance(c, list) else c
    return check_program(case["space"], case["methods"], [vn], None, only=vn)


def main(tier):
    t0 = time.time()
    merged = core.run_sharded(__name__, "shard", tier)
    st = merged["hist"].get("dispatcher_strategy", {})
    if not merged["errors"] and not all(st.get(k) for k in ("if-chain", "counting")):
        merged["errors"].append(f"a dispatcher strategy was never generated: {dict(st)}")
    return core.finish(
        PROP, tier, "model_checking", merged, t0,
        rule="value-dependent types written as Dependent[bound, fn] (every space) and as @dependent_check function / parametrised function "
             "/ class, a ParametrizedDependentType subclass, Dependent[bound, existing type] (a fresh type per use / ONE shared type re-bound everywhere) (spaces i1, ii, iv, v, ix, x; thorough also i, iii); integer domain {0,1,2} with ALL 8 predicates, bounds int / object; class bounds K0 / K1 with attribute predicates; "
             "<= 2 (thorough 3) dependent methods + <= 1 static method on the bound, a subclass or an unrelated class; priorities; "
             "one position, two positions, keyword-only dependent parameter, a union of two dependent types with different bounds; "
             "parametrised @dependent_check types with typing.Any wildcards (all pairs, thorough triples, of the 8 patterns over three parameters x all 8 value tuples: comparable wildcard sets are ordered, incomparable ones tie); a union whose dependent member has a strictly narrower bound than another member; intersections with dependent members; combinations of combinations (dependent members two levels down, plain class & dependent type of wider bound inside a union); 4-5 single-valued Literal methods of which every proper subset carries a second dependent condition on the other position; "
             "every value of the corpus; oracle R1-R3 with the dependent clauses + every value a predicate is asked about must be an "
             "instance of its bound; non-trivial = calls with >= 2 applicable methods",
        assumptions=["reference semantics of vt/annot.py (dependent < static types comparable with its bound; equal bounds unordered; "
                     "different bounds ordered by the bounds)", "predicates are pure and total"],
    )
