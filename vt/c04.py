"""C04 -- caching is invisible: a call's outcome never depends on earlier calls (E2, differential)."""

import time

from . import core, e2, gen, spaces
from .gen import Hierarchy, posets
from .ref import RefOvld, StaticSem

PROP = "C04"
MERGE_EVERY = [1]


def norm(out):
    return (out[0], out[1], repr(out[2]))


class CallModel(e2.Model):
    """Operations: call(c) for c in sigma.  Oracle: outcome == outcome on a brand-new function."""

    introspect = False

    def __init__(self, classes, mspecs, sigma, annotate=gen.annotate_static, introspect=False):
        self.classes = classes
        self.mspecs = mspecs
        self.sigma = sigma  # list of (args tuple, kwargs dict) of real values
        self.annotate = annotate
        # also: the public introspection operations display_resolution(args) / resolve(args) as history steps
        # (they rank / resolve without calling anything and must be just as invisible)
        self.introspect = introspect
        self.baseline = {}
        for i in range(len(sigma)):
            p = self.fresh()
            self.baseline[i] = norm(p.call(*self.sigma[i]))
        self.use_snapshot = e2.snapshot_ovld(self.fresh().ov) is not None

    def fresh(self):
        return gen.Program(self.classes, self.mspecs, annotate=self.annotate)

    def ops(self, hist):
        out = list(range(len(self.sigma)))
        if self.introspect:
            out += [(kind, c) for kind in ("show", "resolve") for c in range(len(self.sigma))]
        return out

    def _introspect(self, p, op):
        import contextlib
        import io

        args, kwargs = self.sigma[op[1]]
        try:
            with contextlib.redirect_stdout(io.StringIO()):
                if op[0] == "show":
                    p.ov.display_resolution(*args, **kwargs)
                else:
                    p.ov.resolve(*args)
        except Exception:  # noqa  (no method / ambiguity are answers of these operations too)
            pass
        return ("introspection",)

    def build(self, hist):
        p = self.fresh()
        for op in hist:
            if isinstance(op, tuple):
                self._introspect(p, op)
            else:
                p.call(*self.sigma[op])
        return p

    def apply(self, p, op):
        if isinstance(op, tuple):
            return self._introspect(p, op)
        return norm(p.call(*self.sigma[op]))

    def canon(self, p, hist):
        if self.use_snapshot:
            s = e2.snapshot_ovld(p.ov)
            if s is not None:
                return s
        return tuple(sorted(set(hist)))  # which tuples were warmed; sound but coarser merging never happens

    def check(self, hist, op, out, obj):
        if isinstance(op, tuple):
            return
        if out != self.baseline[op]:
            yield (f"history-dependent:{self.baseline[op][0]}->{out[0]}",
                   {"first_call_ever": self.baseline[op], "after_history": out})


# ----------------------------------------------------------------------------------------
# program families


def static_family(tier):
    """(space, hier, descs, variant, depth)"""
    H = lambda lo, hi: [Hierarchy.get(a) for n in range(lo, hi + 1) for a in posets(n)]  # noqa
    if tier == "quick":
        yield from _fam("s1a:1pos,n<=3,L=2,prio", H(1, 3), ["x"], (0, 1), 2, 2, ("plain", "cn", "walker"), None)
        yield from _fam("s1b:1pos,n<=3,L=3", H(1, 3), ["x"], (0,), 3, 3, ("plain", "cn"), None)
        yield from _fam("s2:2pos,n<=2,L=2", H(1, 2), ["xy"], (0,), 2, 2, ("plain", "cn"), 3)
        yield from _fam("sf:flavoured (ABC with a virtual subclass whose base is not accepted, protocol),1pos,L=2", FLAV(), ["x"], (0,), 2, 2, ("plain", "cn"), None)
    else:
        yield from _fam("SF:flavoured (ABC / virtual subclass, protocol, twins),1pos,L<=3,prio", FLAV(True), ["x"], (0, 1), 2, 3, ("plain", "cn"), None)
        yield from _fam("S1:1pos,n<=4,L<=3,prio", H(1, 4), ["x"], (0, 1), 2, 3, ("plain", "cn", "next"), None)
        yield from _fam("S1w:1pos,n<=3,L<=3,prio,walker", H(1, 3), ["x"], (0, 1), 2, 3, ("walker",), None)
        yield from _fam("S2:2pos,n<=2,L=2,prio", H(1, 2), ["xy"], (0, 1), 2, 2, ("plain", "cn"), 4)
        yield from _fam("S2b:2pos,n<=2,L=3", H(1, 2), ["xy"], (0,), 3, 3, ("plain", "cn"), 3)
        yield from _fam("S3:2pos,n=3,L=2", H(3, 3), ["xy"], (0,), 2, 2, ("plain", "cn"), 2)


def introspection_family(tier):
    """Three methods over a 2-class hierarchy, one of them delegating with call_next(<a fixed other value>); the history
    alphabet also has display_resolution / resolve.  -> (space, hier, descs, (j, value name), depth)"""
    H = [Hierarchy.get(a) for a in posets(2)] + ([Hierarchy.get(a) for a in posets(3)] if tier != "quick" else [])
    for h in H:
        ds = spaces.descriptors(h.type_names, ["x"], (0,) if tier == "quick" else (0, 1))
        for descs in spaces.multisets(ds, 3, 3, distinct=True):
            for j in range(3):
                for vn in h.type_names:
                    yield "s1i:1pos,n=2,L=3,one call_next(other value),introspection ops", h, descs, (j, vn), 3


def FLAV(all_=False):
    return [gen.FlavouredHierarchy.get(f) for f in (("abc-sub", "proto") if not all_ else ("abc", "abc-sub", "proto", "both", "twins"))]


def _fam(name, hiers, shapes, prios, lo, hi, variants, depth):
    for h in hiers:
        ds = spaces.descriptors(h.type_names, shapes, prios)
        for descs in spaces.multisets(ds, lo, hi):
            for variant in variants:
                yield name, h, descs, variant, depth


def make_program(h, descs, variant):
    """-> (classes, mspecs, sigma names, sigma values) or None if the program is uninteresting."""
    classes = dict(h.classes)
    if variant == "walker":
        mspecs = spaces.mspecs_of(descs)
        classes["list"] = list
        mspecs.append({"id": len(mspecs), "shape": gen.SHAPES["x"], "types": {"x": "list"}, "prio": 0, "body": "rec"})
    elif variant == "plain":
        mspecs = spaces.mspecs_of(descs)
    else:
        mspecs = spaces.mspecs_of(descs, body=variant)
    npos = 2 if descs[0][0] == "xy" else 1
    names = getattr(h, "value_names", h.type_names)  # (abstract classes of a flavoured hierarchy have no instances)
    import itertools

    sig_names = [tuple(t) for t in itertools.product(names, repeat=npos)]
    sigma = [(tuple(h.instances[a] for a in t), {}) for t in sig_names]
    if variant == "walker":
        for a in names:
            sig_names.append(("[" + a + "]",))
            sigma.append((([h.instances[a]],), {}))
        sig_names.append(("[" + ",".join(names) + "]",))
        sigma.append((([h.instances[a] for a in names],), {}))
        sig_names.append(("[[" + names[-1] + "]," + names[0] + "]",))
        sigma.append((([[h.instances[names[-1]]], h.instances[names[0]]],), {}))
    # at least two outcome kinds among the plain calls (reference): otherwise nothing to confuse
    ref = RefOvld([m for m in mspecs if m.get("body") != "rec"], StaticSem(classes))
    kinds = {ref.decide(a, k)[0] for a, k in sigma[: len(names) ** npos]}
    mids = {ref.decide(a, k)[1].id for a, k in sigma[: len(names) ** npos] if ref.decide(a, k)[0] == "ret"}
    if len(kinds) + len(mids) < 3:
        return None
    return classes, mspecs, sig_names, sigma


def shard(shard, nshards, tier, seed):
    acc = core.Acc(PROP)
    idx = 0
    k = 0
    MERGE_EVERY[0] = 4 if tier == "quick" else 1
    for space, h, descs, variant, depth in static_family(tier):
        idx += 1
        if idx % nshards != shard:
            continue
        made = make_program(h, descs, variant)
        if made is None:
            acc.count("skipped_single_outcome")
            continue
        classes, mspecs, sig_names, sigma = made
        run_program(acc, space, h.spec(), classes, mspecs, sig_names, sigma, depth, variant)
        k += 1
        if k % 50 == 0:
            gen.purge_globals()
    for space, h, descs, (j, vn), depth in introspection_family(tier):
        idx += 1
        if idx % nshards != shard:
            continue
        mspecs = spaces.mspecs_of(descs, body=["cnv" if i == j else "plain" for i in range(len(descs))])
        mspecs[j]["env"] = {"__v": h.instances[vn]}
        sig_names = [(a,) for a in h.type_names]
        sigma = [((h.instances[a],), {}) for a in h.type_names]
        run_program(acc, space, h.spec(), dict(h.classes), mspecs, sig_names, sigma, depth, "cnv", introspect=True, cnv=(j, vn))
        k += 1
        if k % 50 == 0:
            gen.purge_globals()
    from . import c04_dep

    c04_dep.shard_into(acc, shard, nshards, tier, idx)
    return acc


def run_program(acc, space, hier_spec, classes, mspecs, sig_names, sigma, depth, variant, annotate=gen.annotate_static, cap=None,
                introspect=False, cnv=None):
    model = CallModel(classes, mspecs, sigma, annotate, introspect=introspect)
    d = depth if depth is not None else len(sigma)
    if variant == "walker":
        d = min(d, 3)
    elif variant in ("cn", "next") and depth is not None:
        d = max(2, depth - 1)

    def on_violation(hist, op, disc, detail):
        case = {"space": space, "hier": hier_spec, "methods": [{k: v for k, v in m.items() if k != "env"} for m in mspecs], "variant": variant,
                "sigma": [list(s) for s in sig_names], "history": [list(o) if isinstance(o, tuple) else o for o in hist], "op": op}
        if cnv is not None:
            case["cnv"] = list(cnv)
        acc.violation(case, disc, {"first_call_ever": list(detail["first_call_ever"][:2]), "after_history": list(detail["after_history"][:2])})

    st = e2.bfs(model, d, acc, max_states=cap, on_violation=on_violation, merge_every=MERGE_EVERY[0])
    acc.count("programs")
    acc.h("programs_per_space", space)
    acc.h("outcome_kinds", tuple(sorted({b[0] for b in model.baseline.values()})).__repr__())
    if len({b for b in model.baseline.values()}) >= 2:
        acc.count("nontrivial", st["states"])
    acc.h("closure", "closed" if (d >= len(sigma) and not st["capped"]) else f"depth<={d}")
    if acc.n["programs"] % 40 == 1:
        acc.sample({"space": space, "hier": hier_spec, "methods": mspecs, "sigma": [list(s) for s in sig_names],
                    "states": st["states"], "transitions": st["transitions"], "max_depth": st["max_depth"]})
    return st


def replay(case):
    if case["space"].startswith(("d", "D", "k:")):
        from . import c04_dep

        return c04_dep.replay(case)
    from .c02 import _anc

    if "flavoured" in case["hier"]:
        h = gen.FlavouredHierarchy.get(case["hier"]["flavoured"])
    else:
        h = Hierarchy.get([frozenset(int(b[1:]) for b in _anc(case["hier"], c)) for c in case["hier"]["classes"]])
    descs = None
    classes = dict(h.classes)
    classes["list"] = list
    mspecs = case["methods"]
    # rebuild sigma from the names
    sigma = []
    for names in case["sigma"]:
        vals = []
        for nm in names:
            vals.append(_parse_val(nm, h))
        sigma.append((tuple(vals), {}))
    if case.get("cnv"):
        mspecs[case["cnv"][0]]["env"] = {"__v": h.instances[case["cnv"][1]]}
    model = CallModel(classes, mspecs, sigma, introspect=bool(case.get("cnv")))
    hist = tuple(tuple(o) if isinstance(o, list) else o for o in case["history"])
    p = model.build(hist)
    out = model.apply(p, case["op"])
    return list(model.check(hist, case["op"], out, p))


def _parse_val(nm, h):
    if not nm.startswith("["):
        return h.instances[nm]
    inner = nm[1:-1]
    parts, depth, cur = [], 0, ""
    for ch in inner:
        if ch == "," and depth == 0:
            parts.append(cur)
            cur = ""
        else:
            depth += ch == "["
            depth -= ch == "]"
            cur += ch
    if cur:
        parts.append(cur)
    return [_parse_val(p, h) for p in parts]


def main(tier):
    t0 = time.time()
    merged = core.run_sharded(__name__, "shard", tier)
    return core.finish(
        PROP, tier, "model_checking", merged, t0,
        rule="explicit-state BFS over call histories on the real function: per program (static, fully delegating with "
             "call_next / f.next, a list walker using recurse, Literal / Dependent methods) the operations are call(c) for "
             "every c in the program's argument corpus, including failing ones (one family - three methods, one delegating with call_next on "
             "another value - also has the introspection operations display_resolution(c) / resolve(c) as history steps); states = canonical snapshot of the library's "
             "own cache tables; closure where the corpus is small, else the stated depth; oracle: every transition's outcome "
             "(kind, trace of entered bodies incl. nested recurse / call_next, result) equals the first-call-ever outcome on "
             "a brand-new function; non-trivial = states of programs with >= 2 distinct outcomes",
        assumptions=["state abstraction (cache snapshot) is tested by expanding re-reached states a second time (merge_checks)",
                     "canonical set-iteration order via hook H1"],
        states_key="states", transitions_key="transitions",
    )
