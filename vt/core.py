"""Shared machinery: sharded runner, outcome normalisation, evidence, known findings, replays."""

import hashlib
import json
import multiprocessing as mp
import os
import re
import subprocess
import sys
import time
import traceback
from collections import Counter

from . import env

VERIF = env.VERIF
# (the two overrides are for tools that run checks against scratch copies in parallel; the registered commands never set them)
EVIDENCE_DIR = os.environ.get("VT_EVIDENCE_DIR") or os.path.join(VERIF, "evidence")
REPLAY_DIR = os.environ.get("VT_REPLAY_DIR") or os.path.join(VERIF, "replays")
KNOWN_FILE = os.path.join(VERIF, "KNOWN_FINDINGS.txt")
SCHEMA = "/root/.vp/EVIDENCE.schema.json"

MAX_REPORTED = 25  # VIOLATION lines / replay files per run
MAX_KEPT_PER_SHARD = 400


_SIG = re.compile(r"^[\w.\[\]<> ]+\(\) (missing \d+ required|takes |got an unexpected keyword|got multiple values|got some positional-only)")


class HarnessError(Exception):
    """The harness itself is inconsistent (never a verdict): exit code 2."""


# ----------------------------------------------------------------------------------------
# canonical ids


def canon(obj):
    return json.dumps(obj, sort_keys=True, separators=(",", ":"), default=str)


def hid(*parts):
    h = hashlib.sha1()
    for p in parts:
        h.update((p if isinstance(p, str) else canon(p)).encode())
        h.update(b"\x00")
    return h.hexdigest()[:12]


# ----------------------------------------------------------------------------------------
# outcomes


def classify_exception(exc, log):
    """Normalise an exception raised by a call into an outcome kind (DESIGN 2.4)."""
    msg = str(exc)
    if type(exc) is TypeError:
        if msg.startswith("No method in "):
            return "nomethod"
        if msg.startswith("Ambiguous resolution in "):
            return "ambiguous"
        if not log:
            # a TypeError raised by the entry point's own parameter binding never has a
            # library / generated frame below the harness frame that made the call
            tb = exc.__traceback__
            inner = None
            while tb is not None:
                inner = tb
                tb = tb.tb_next
            code = inner.tb_frame.f_code if inner else None
            fname = code.co_filename if code else ""
            if not fname.startswith("<ovld:") and os.sep + "ovld" + os.sep not in fname:
                return "sigerror"
            # first call: the bootstrap trampoline (closure over 'ov') forwards to the entry point
            if (code is not None and fname.endswith("core.py") and _SIG.match(msg)
                    and (code.co_freevars == ("ov",) or code.co_name == "__call__")):
                return "sigerror"
    return "exc:" + type(exc).__name__


def short_exc(exc):
    return f"{type(exc).__name__}: {str(exc).splitlines()[0][:160] if str(exc) else ''}"


# ----------------------------------------------------------------------------------------
# known findings


class Known:
    """KNOWN_FINDINGS.txt: committed, never written at check time.

    known: property=<id> finding=<name> ids=<relative path> :: <what fails>
    fixed: property=<id> <commit> <what failed>

    A finding is identified by the exact set of violating cases (canonical case +
    discrepancy, hashed) listed in its ids file, so any other violation of the same
    property is still reported.
    """

    def __init__(self, prop):
        self.prop = prop
        self.findings = {}  # name -> description
        self.by_id = {}  # violation id -> finding name
        if not os.path.exists(KNOWN_FILE):
            return
        for line in open(KNOWN_FILE):
            line = line.strip()
            if not line.startswith("known:"):
                continue
            head, _, what = line[len("known:"):].partition("::")
            kv = dict(tok.split("=", 1) for tok in head.split() if "=" in tok)
            if kv.get("property") != prop:
                continue
            name = kv["finding"]
            self.findings[name] = what.strip()
            path = os.path.join(VERIF, kv["ids"])
            for l in open(path):
                l = l.strip()
                if l and not l.startswith("#"):
                    self.by_id[l.split()[0]] = name

    def lookup(self, vid):
        return self.by_id.get(vid)


# ----------------------------------------------------------------------------------------
# per-shard accumulator


class Acc:
    """What one shard measured.  Merged with ``merge``."""

    def __init__(self, prop):
        self.prop = prop
        self.n = Counter()  # numeric counters (evaluations, nontrivial, states, ...)
        self.hist = {}  # name -> Counter
        self.samples = []
        self.viol_ids = []  # [(vid, disc)] for every raw violation
        self.viol = []  # full records of (some) violations
        self.extra = {}
        self.errors = []

    def count(self, key, k=1):
        self.n[key] += k

    def h(self, name, key, k=1):
        self.hist.setdefault(name, Counter())[key] += k

    def sample(self, case, every=None):
        if len(self.samples) < 3:
            self.samples.append(case)

    def violation(self, case, disc, detail=None):
        vid = hid(case, disc)
        self.viol_ids.append((vid, disc))
        if len(self.viol) < MAX_KEPT_PER_SHARD:
            self.viol.append({"vid": vid, "disc": disc, "case": case, "detail": detail})
        return vid

    def dump(self):
        return {
            "n": dict(self.n),
            "hist": {k: dict(v) for k, v in self.hist.items()},
            "samples": self.samples,
            "viol_ids": self.viol_ids,
            "viol": self.viol,
            "extra": self.extra,
            "errors": self.errors,
        }


def merge(dumps):
    out = {"n": Counter(), "hist": {}, "samples": [], "viol_ids": [], "viol": [], "extra": {}, "errors": []}
    for d in dumps:
        out["n"].update(d["n"])
        for k, v in d["hist"].items():
            out["hist"].setdefault(k, Counter()).update(v)
        out["samples"].extend(d["samples"])
        out["viol_ids"].extend(d["viol_ids"])
        out["viol"].extend(d["viol"])
        out["errors"].extend(d["errors"])
        for k, v in d["extra"].items():
            if isinstance(v, (int, float)):
                out["extra"][k] = out["extra"].get(k, 0) + v
            elif isinstance(v, list):
                out["extra"].setdefault(k, []).extend(v)
            elif isinstance(v, dict):
                out["extra"].setdefault(k, {}).update(v)
            else:
                out["extra"][k] = v
    return out


# ----------------------------------------------------------------------------------------
# runner


def _run_shard(args):
    modname, fn, shard, nshards, tier, seed, kw = args
    try:
        import importlib

        mod = importlib.import_module(modname)
        acc = getattr(mod, fn)(shard, nshards, tier, seed, **kw)
        return acc.dump()
    except HarnessError as e:
        a = Acc("?")
        a.errors.append(f"HarnessError in shard {shard}: {e}")
        return a.dump()
    except BaseException as e:  # noqa
        a = Acc("?")
        a.errors.append(f"shard {shard} crashed: {type(e).__name__}: {e}\n{traceback.format_exc()}")
        return a.dump()


def run_sharded(modname, fn="shard", tier="quick", nshards=None, **kw):
    """Run ``modname.fn(shard, nshards, tier, seed, **kw)`` over a process pool and merge."""
    seed = env.seed()
    j = env.jobs()
    nshards = nshards or j * 4
    order = list(range(nshards))
    # the seed only permutes the order in which shards are handed out
    import random

    random.Random(seed).shuffle(order)
    tasks = [(modname, fn, s, nshards, tier, seed, kw) for s in order]
    if j == 1 and nshards == 1:
        dumps = [_run_shard(t) for t in tasks]
    else:
        dumps = _run_pool(tasks, min(j, nshards))
    return merge(dumps)


def _child(task, conn):
    try:
        conn.send(_run_shard(task))
    finally:
        conn.close()


def _run_pool(tasks, workers):
    """One process per shard, at most ``workers`` at a time.  A shard whose process dies (the
    interpreter itself crashed, e.g. a segmentation fault while running code the library generated)
    is reported as a violation instead of hanging the check."""
    ctx = mp.get_context("fork")
    pending = list(tasks)
    running = {}
    dumps = []
    import multiprocessing.connection as mpc

    while pending or running:
        while pending and len(running) < workers:
            t = pending.pop(0)
            rd, wr = ctx.Pipe(duplex=False)
            p = ctx.Process(target=_child, args=(t, wr))
            p.start()
            wr.close()
            running[rd] = (p, t)
        ready = mpc.wait(list(running), timeout=1.0)
        for rd in ready:
            p, t = running.pop(rd)
            try:
                dumps.append(rd.recv())
            except (EOFError, OSError):
                p.join()
                a = Acc("?")
                case = {"shard": t[2], "of": t[3], "tier": t[4], "module": t[0]}
                a.violation(case, "interpreter-crashed", {"exitcode": p.exitcode,
                            "note": "the worker process died while executing this shard (signal %s)" % (-(p.exitcode or 0))})
                a.n["evaluations"] += 1
                dumps.append(a.dump())
            rd.close()
            p.join()
    return dumps


# ----------------------------------------------------------------------------------------
# finishing a check: known-finding matching, replay files, evidence, exit code


def write_replay(prop, rec, tier):
    d = os.path.join(REPLAY_DIR, prop)
    os.makedirs(d, exist_ok=True)
    path = os.path.join(d, rec["vid"] + ".json")
    doc = {"property": prop, "tier": tier, "vid": rec["vid"], "discrepancy": rec["disc"],
           "case": rec["case"], "detail": rec.get("detail")}
    with open(path, "w") as f:
        json.dump(doc, f, indent=1, sort_keys=True, default=str)
    return path


def validate_evidence(path):
    code = (
        "import json,sys,jsonschema;"
        "jsonschema.validate(json.load(open(sys.argv[1])), json.load(open(sys.argv[2])))"
    )
    if not os.path.exists(SCHEMA):
        return
    for exe in ("python3-vt", "/opt/veriftools/pyvenv/bin/python"):
        try:
            r = subprocess.run([exe, "-c", code, path, SCHEMA], capture_output=True, text=True)
        except FileNotFoundError:
            continue
        if r.returncode != 0:
            raise HarnessError(f"evidence file {path} does not validate: {r.stderr[-600:]}")
        return


def finish(prop, tier, level, merged, t0, rule, assumptions, coverage_extra=None,
           exhaustive=True, nontrivial_key="nontrivial", states_key=None, transitions_key=None):
    """Match violations against known findings, write replays + evidence, print verdict.

    Returns the process exit code.
    """
    n = merged["n"]
    if merged["errors"]:
        for e in merged["errors"]:
            print("HARNESS-ERROR:", e, file=sys.stderr)
        print(f"harness error in {prop}: {len(merged['errors'])} shard(s) failed", file=sys.stderr)
        return 2

    if n.get("merge_mismatches") and not merged["viol_ids"]:
        print(f"HARNESS-ERROR: state abstraction unsound ({n['merge_mismatches']} merged states behave differently, "
              f"no violation reported): {merged['extra'].get('merge_mismatch_examples', ['?'])[0]}", file=sys.stderr)
        return 2
    known = Known(prop)
    per_finding = Counter()
    unknown_ids = []
    for vid, disc in merged["viol_ids"]:
        name = known.lookup(vid)
        if name is None:
            unknown_ids.append((vid, disc))
        else:
            per_finding[name] += 1
    full = {r["vid"]: r for r in merged["viol"]}

    for name, cnt in sorted(per_finding.items()):
        print(f"KNOWN-FINDING: property={prop} {name}: {known.findings[name]} [{cnt} raw case(s) this run]")

    reported = 0
    seen = set()
    disc_hist = Counter(d for _, d in unknown_ids)
    for vid, disc in sorted(unknown_ids):
        if vid in seen:
            continue
        seen.add(vid)
        if reported >= MAX_REPORTED:
            break
        rec = full.get(vid)
        if rec is None:
            continue
        path = write_replay(prop, rec, tier)
        print(f"VIOLATION property={prop} replay={path}")
        print(f"  discrepancy: {disc}; detail: {canon(rec.get('detail'))[:300]}")
        reported += 1
    if unknown_ids and not reported:
        # records were capped in the shards: still report
        print(f"VIOLATION property={prop} replay=(record cap reached; rerun with VERIF_JOBS=1)")
    if unknown_ids:
        print(f"  {len(seen)} distinct new violating case(s); by discrepancy: {dict(disc_hist)}")

    evaluations = int(n.get("evaluations", 0))
    cov = {
        "evaluations": evaluations,
        "distinct_nontrivial": int(n.get(nontrivial_key, 0)),
        "rule": rule,
        "samples": merged["samples"][:3] or [{"note": "no sample"}],
        "exhaustive": bool(exhaustive),
        "traces_validated_against_impl": evaluations,
        "counters": {k: int(v) for k, v in sorted(n.items())},
        "histograms": {k: dict(sorted(v.items(), key=lambda kv: str(kv[0]))) for k, v in merged["hist"].items()},
        "known_finding_raw_cases": dict(per_finding),
        "new_violations": len(seen),
    }
    cov["states"] = int(n.get(states_key, 0)) if states_key else evaluations
    cov["transitions"] = int(n.get(transitions_key, 0)) if transitions_key else evaluations
    if coverage_extra:
        cov.update(coverage_extra)
    for k, v in merged["extra"].items():
        cov.setdefault(k, v)
    ev = {
        "property_id": prop,
        "tier": tier,
        "seed": env.seed(),
        "level": level,
        "coverage": cov,
        "assumptions": assumptions,
        "wall_s": round(time.time() - t0, 2),
        "violations": len(seen),
    }
    os.makedirs(EVIDENCE_DIR, exist_ok=True)
    path = os.path.join(EVIDENCE_DIR, prop + ".json")
    with open(path, "w") as f:
        json.dump(ev, f, indent=1, sort_keys=True, default=str)
    try:
        validate_evidence(path)
    except HarnessError as e:
        print("HARNESS-ERROR:", e, file=sys.stderr)
        return 2
    if evaluations == 0:
        print(f"harness error in {prop}: nothing was explored", file=sys.stderr)
        return 2
    print(
        f"{prop} [{tier}] evaluations={evaluations} nontrivial={cov['distinct_nontrivial']} "
        f"states={cov['states']} transitions={cov['transitions']} known_raw={sum(per_finding.values())} "
        f"new={len(seen)} wall={ev['wall_s']}s"
    )
    return 1 if unknown_ids else 0
