"""Bounded-exhaustive exploration (model checking) of breuleux/ovld -- see /verif/DESIGN.md."""
