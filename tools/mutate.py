#!/usr/bin/env python3
"""Apply a patch (or a single textual replacement) to a scratch copy of /repo, run the repository's
own tests on the copy, then run the given checks against the copy (OVLD_SRC).  The copy is removed
afterwards.  Usage:
  tools/mutate.py --patch seeded/x/patch.diff C02 C07
  tools/mutate.py --file src/ovld/typemap.py --old 'a' --new 'b' C02
"""
import argparse, os, re, shutil, subprocess, sys, tempfile

ap = argparse.ArgumentParser()
ap.add_argument("--patch")
ap.add_argument("--file")
ap.add_argument("--old")
ap.add_argument("--new")
ap.add_argument("--tier", default="quick")
ap.add_argument("--skip-tests", action="store_true")
ap.add_argument("checks", nargs="*")
a = ap.parse_args()

tmp = tempfile.mkdtemp(prefix="mut_", dir="/tmp")
dst = os.path.join(tmp, "repo")
try:
    subprocess.run(["git", "-C", "/repo", "worktree", "add", "--detach", dst, "HEAD"], check=True, capture_output=True)
    if a.patch:
        r = subprocess.run(["git", "-C", dst, "apply", os.path.abspath(a.patch)], capture_output=True, text=True)
        if r.returncode:
            print("PATCH DOES NOT APPLY:", r.stderr)
            sys.exit(3)
    else:
        p = os.path.join(dst, a.file)
        s = open(p).read()
        if s.count(a.old) != 1:
            print(f"old text occurs {s.count(a.old)} times")
            sys.exit(3)
        open(p, "w").write(s.replace(a.old, a.new))
    env = dict(os.environ, PYTHONPATH=os.path.join(dst, "src"), PYTHONDONTWRITEBYTECODE="1")
    env.pop("OVLD_VERIF", None)
    if not a.skip_tests:
        r = subprocess.run(["/venv/bin/python", "-m", "pytest", "-q", "-p", "no:cacheprovider", "--deselect", "tests/test_ovld.py::test_conform",
                            "--deselect", "tests/test_ovld.py::test_conform_2", "--ignore-glob=*nothing*"], cwd=dst, env=env, capture_output=True, text=True)
        tail = r.stdout.strip().splitlines()[-1] if r.stdout.strip() else ""
        m = re.search(r"(\d+) passed", tail)
        print("repo tests on mutant:", tail)
        ok = m and int(m.group(1)) >= 143
        print("TESTS", "PASS" if ok else "FAIL (mutant is caught by the existing suite)")
    for c in a.checks:
        env2 = dict(os.environ, OVLD_SRC=os.path.join(dst, "src"))
        r = subprocess.run(["./check", c, "--tier", a.tier], cwd="/verif", env=env2, capture_output=True, text=True)
        lines = r.stdout.strip().splitlines()
        viol = [l for l in lines if l.startswith("VIOLATION")]
        print(f"check {c}: exit={r.returncode} violations={len(viol)} :: {lines[-1] if lines else r.stderr[-300:]}")
        if viol:
            print("   ", viol[0])
            i = lines.index(viol[0])
            if i + 1 < len(lines):
                print("   ", lines[i + 1][:300])
finally:
    subprocess.run(["git", "-C", "/repo", "worktree", "remove", "--force", dst], capture_output=True)
    shutil.rmtree(tmp, ignore_errors=True)
    # restore evidence written against the mutant
    subprocess.run(["git", "-C", "/verif", "checkout", "--", "evidence"], capture_output=True)
