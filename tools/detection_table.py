#!/usr/bin/env python3
"""Regenerates the detection matrix in DESIGN.md section 13.5 from seeded/*/meta.json."""
import glob, json, re
rows = []
for f in sorted(glob.glob("/verif/seeded/*/meta.json")):
    m = json.load(open(f))
    checks = ", ".join(f"{c} {'DETECTS' if v['exit'] == 1 else 'silent' if v['exit'] == 0 else 'error'}" for c, v in m["checks"].items())
    if m.get("superseded_by_fix"):
        checks += f" (on the tree it was written for; led to fix {m['superseded_by_fix']}, see meta.json)"
    rows.append(f"| `{m['name']}` | {m['property']} | {m['needs_to_manifest']} | {'yes' if m['repo_tests_pass'] else 'NO'} | {checks} |")
table = ("| seeded change | breaks | what it needs to manifest | repo tests still pass | checks run against it (quick tier) |\n|---|---|---|---|---|\n" + "\n".join(rows))
p = "/verif/DESIGN.md"
s = open(p).read()
start, end = "<!-- detection-table-start -->", "<!-- detection-table-end -->"
if start not in s:
    s = s.rstrip("\n") + f"\n\n{start}\n{end}\n"
s = re.sub(re.escape(start) + ".*?" + re.escape(end), start + "\n" + table + "\n" + end, s, flags=re.S)
open(p, "w").write(s)
print(len(rows), "rows")
