#!/bin/sh
# tools/run_all.sh <tier> [ids...]: runs the checks one after the other and prints exit code and wall time
tier=$1; shift
ids="$@"
[ -z "$ids" ] && ids="C01 C02 C03 C04 C05 C06 C07 C08 C09 C10 C11 C12 C13 C14 C15 C16 C17 C18 C20 C19"
for c in $ids; do
  s=$(date +%s)
  full=$(./check $c --tier $tier 2>&1)
  rc=$?
  out=$(printf '%s\n' "$full" | tail -1)
  e=$(date +%s)
  echo "$c rc=$rc $((e-s))s :: $out"
done
