#!/usr/bin/env python3
"""Re-run every recorded seeded change against the check(s) that detected it (regression suite for the checks).

  tools/regress_seeds.py [-j N] [name-prefix ...]

For each /verif/seeded/<name>: a fresh scratch worktree of /repo HEAD under /tmp (removed afterwards), the
patch is applied (a patch that no longer applies to the current tree is reported and skipped - later `fix:`
commits may have rewritten the lines), and the first check listed in meta.json "detected_by" is run in the
quick tier with OVLD_SRC pointing at the patched copy.  Nothing under /verif/seeded is rewritten.
Exit 0 iff every applicable change is still detected.
"""
import concurrent.futures as cf
import json
import os
import shutil
import subprocess
import sys
import tempfile

args = sys.argv[1:]
jobs = 3
if args[:1] == ["-j"]:
    jobs = int(args[1])
    args = args[2:]
names = sorted(d for d in os.listdir("/verif/seeded") if os.path.exists(f"/verif/seeded/{d}/meta.json"))
if args:
    names = [n for n in names if any(n.startswith(a) for a in args)]


def one(name):
    meta = json.load(open(f"/verif/seeded/{name}/meta.json"))
    det = meta.get("detected_by") or []
    if not det:
        return name, "no-detecting-check-recorded", ""
    tmp = tempfile.mkdtemp(prefix="regress_", dir="/tmp")
    wt = os.path.join(tmp, "repo")
    try:
        subprocess.run(["git", "-C", "/repo", "worktree", "add", "--detach", wt, "HEAD"], check=True, capture_output=True)
        r = subprocess.run(["git", "-C", wt, "apply", f"/verif/seeded/{name}/patch.diff"], capture_output=True, text=True)
        if r.returncode:
            return name, "patch-no-longer-applies", ""
        check = det[0]
        env = dict(os.environ, OVLD_SRC=os.path.join(wt, "src"), VT_REPLAY_DIR=os.path.join(tmp, "replays"), VT_EVIDENCE_DIR=os.path.join(tmp, "evidence"))
        rc = subprocess.run(["/verif/check", check], env=env, capture_output=True, text=True, cwd="/verif")
        viol = sum(1 for l in rc.stdout.splitlines() if l.startswith("VIOLATION"))
        if rc.returncode == 1 and viol:
            return name, "detected", check
        # not detected: does the change still break the property on the current tree? (its own demonstration decides;
        # a later `fix:` commit may have neutralised it)
        demo = os.path.join(tmp, "demo.py")
        import re
        open(demo, "w").write(re.sub(r"/tmp/wt/C\d+", wt, open(f"/verif/seeded/{name}/demo.py").read()))
        env2 = dict(os.environ, PYTHONPATH=os.path.join(wt, "src"))
        env2.pop("OVLD_VERIF", None)
        d = subprocess.run(["/venv/bin/python", demo], cwd=wt, env=env2, capture_output=True, text=True, timeout=600)
        if d.returncode == 0:
            return name, "neutralised-by-a-later-fix (its demonstration passes on the current tree with the patch)", check
        return name, f"NOT-DETECTED(rc={rc.returncode})", check
    finally:
        subprocess.run(["git", "-C", "/repo", "worktree", "remove", "--force", wt], capture_output=True)
        shutil.rmtree(tmp, ignore_errors=True)


bad = 0
with cf.ThreadPoolExecutor(jobs) as ex:
    for name, verdict, check in ex.map(one, names):
        print(f"{name:60s} {check:4s} {verdict}", flush=True)
        if verdict.startswith("NOT-DETECTED"):
            bad += 1
subprocess.run(["git", "-C", "/repo", "worktree", "prune"])
sys.exit(1 if bad else 0)
