#!/usr/bin/env python3
"""Confirm a property-breaking change and record it under /verif/seeded/<name>/.

  tools/seed.py <name> <property> <dir with MUTANT_patch.diff, MUTANT_demo.py, MUTANT_notes.md> <needs...> -- CHECK [CHECK...]

Everything is verified in a fresh scratch worktree of /repo HEAD (removed afterwards):
the demo passes without the patch, the patch applies, the repository's tests still pass
(143), the demo fails with it; then the given checks are run against the patched copy.
"""
import json, os, re, shutil, subprocess, sys, tempfile

name, prop, src = sys.argv[1:4]
rest = sys.argv[4:]
needs = " ".join(rest[: rest.index("--")])
checks = rest[rest.index("--") + 1:]
tier = os.environ.get("SEED_TIER", "quick")
out = os.path.join("/verif/seeded", name)
os.makedirs(out, exist_ok=True)
if src != "-":  # "-": re-verify an already recorded change
    shutil.copy(os.path.join(src, "MUTANT_patch.diff"), os.path.join(out, "patch.diff"))
    shutil.copy(os.path.join(src, "MUTANT_demo.py"), os.path.join(out, "demo.py"))
    if os.path.exists(os.path.join(src, "MUTANT_notes.md")):
        shutil.copy(os.path.join(src, "MUTANT_notes.md"), os.path.join(out, "notes.md"))
elif not needs and os.path.exists(os.path.join(out, "meta.json")):
    needs = json.load(open(os.path.join(out, "meta.json")))["needs_to_manifest"]

tmp = tempfile.mkdtemp(prefix="seed_", dir="/tmp")
wt = os.path.join(tmp, "repo")
ran = []
meta = {"name": name, "property": prop, "needs_to_manifest": needs, "repo_head": subprocess.run(["git", "-C", "/repo", "rev-parse", "--short", "HEAD"], capture_output=True, text=True).stdout.strip()}
try:
    subprocess.run(["git", "-C", "/repo", "worktree", "add", "--detach", wt, "HEAD"], check=True, capture_output=True)
    env = dict(os.environ, PYTHONPATH=os.path.join(wt, "src"), PYTHONDONTWRITEBYTECODE="1")
    env.pop("OVLD_VERIF", None)
    demo = os.path.join(out, "demo.py")
    src_demo = open(demo).read()
    # demos written in an agent's worktree refer to it by absolute path
    fixed = re.sub(r"/tmp/wt/C\d+", wt, src_demo)
    demo_run = os.path.join(tmp, "demo.py")
    open(demo_run, "w").write(fixed)
    r0 = subprocess.run(["/venv/bin/python", demo_run], cwd=wt, env=env, capture_output=True, text=True, timeout=600)
    meta["demo_without_change_exit"] = r0.returncode
    ran.append("demo on unmodified tree: exit %d" % r0.returncode)
    r = subprocess.run(["git", "-C", wt, "apply", os.path.join(out, "patch.diff")], capture_output=True, text=True)
    if r.returncode:
        print("PATCH DOES NOT APPLY", r.stderr)
        sys.exit(3)
    rt = subprocess.run(["/venv/bin/python", "-m", "pytest", "-q", "-p", "no:cacheprovider"], cwd=wt, env=env, capture_output=True, text=True)
    tail = rt.stdout.strip().splitlines()[-1]
    m = re.search(r"(\d+) passed", tail)
    meta["repo_tests_with_change"] = tail
    meta["repo_tests_pass"] = bool(m and int(m.group(1)) >= 143 and re.search(r"\b2 failed", tail) is not None)
    ran.append("repository tests on modified tree: " + tail)
    r1 = subprocess.run(["/venv/bin/python", demo_run], cwd=wt, env=env, capture_output=True, text=True, timeout=600)
    meta["demo_with_change_exit"] = r1.returncode
    meta["demo_with_change_tail"] = (r1.stdout + r1.stderr).strip().splitlines()[-3:]
    ran.append("demo on modified tree: exit %d" % r1.returncode)
    meta["checks"] = {}
    for c in checks:
        env2 = dict(os.environ, OVLD_SRC=os.path.join(wt, "src"))
        rc = subprocess.run(["./check", c, "--tier", tier], cwd="/verif", env=env2, capture_output=True, text=True)
        lines = rc.stdout.strip().splitlines()
        viol = [l for l in lines if l.startswith("VIOLATION")]
        first = ""
        if viol:
            i = lines.index(viol[0])
            first = lines[i + 1].strip()[:300] if i + 1 < len(lines) else ""
        meta["checks"][c] = {"tier": tier, "exit": rc.returncode, "violation_lines": len(viol), "first": first, "summary": lines[-1] if lines else rc.stderr[-300:]}
        ran.append(f"./check {c} --tier {tier} (OVLD_SRC=patched copy): exit {rc.returncode}, {len(viol)} VIOLATION lines")
    meta["what_was_run"] = ran
    meta["confirmed"] = meta["demo_without_change_exit"] == 0 and meta["demo_with_change_exit"] != 0 and meta["repo_tests_pass"]
    meta["detected_by"] = [c for c, v in meta["checks"].items() if v["exit"] == 1]
    json.dump(meta, open(os.path.join(out, "meta.json"), "w"), indent=1)
    print(json.dumps({k: meta[k] for k in ("confirmed", "demo_without_change_exit", "demo_with_change_exit", "repo_tests_with_change", "detected_by")}, indent=1))
    for c, v in meta["checks"].items():
        print(c, v["exit"], v["first"][:200])
finally:
    subprocess.run(["git", "-C", "/repo", "worktree", "remove", "--force", wt], capture_output=True)
    shutil.rmtree(tmp, ignore_errors=True)
    subprocess.run(["git", "-C", "/verif", "checkout", "--", "evidence"], capture_output=True)
