#!/usr/bin/env python3
"""Regenerates MANIFEST.json from the table below (keeps it valid at all times)."""
import json, subprocess

CHECKS = {}

def add(pid, category, text, note, technique, design_ref, thorough=True):
    CHECKS[pid] = {
        "property_id": pid,
        "quick_cmd": f"./check {pid} --tier quick",
        **({"thorough_cmd": f"./check {pid} --tier thorough"} if thorough else {}),
        "evidence_file": f"/verif/evidence/{pid}.json",
        "replay_cmd_template": f"./check {pid} --replay {{path}}",
        "engine": "vt",
        "level_claimed": {"category": category, "text": text, "design_ref": design_ref},
        "level_note": note,
        "technique": technique,
    }

add("C02", "model_checking",
    "Every program of a stated finite space (all class posets up to isomorphism with <= 4 (thorough 5) classes x all "
    "multisets of <= 3 (4) methods over 1-3 dispatched positions, priorities, keyword-only parameters) x every argument-class "
    "tuple is executed on the real Ovld and compared with the reference model R1-R3 and with resolve().",
    "Trusted: the ~150-line reference model vt/ref.py; canonical set-iteration order via hook H1 (other orders are C06's subject).",
    "bounded-exhaustive enumeration of programs x calls on the real implementation vs a reference model (stateless explicit-state exploration, depth 1)",
    "DESIGN.md section 5 C02")

add("C01", "model_checking",
    "Every body entered during any call of every program of the static, delegating (call_next / f.next / call_next on every "
    "other value / variants / mixins / bound methods) and value-dependent families is checked by an in-body monitor against "
    "the method's own declaration; the program and call spaces are enumerated completely up to the stated bounds.",
    "Trusted: the reference instance relation (isinstance for classes, equality for literals, bound+predicate for dependent types).",
    "bounded-exhaustive enumeration of programs x calls on the real implementation with a runtime monitor in every method body",
    "DESIGN.md section 5 C01")

add("C07", "model_checking",
    "For every static program of the stated spaces, every delegation mask, flavour (call_next, f.next, call_next on a value the "
    "caller does not accept) and carrier (function, bound method, variant, mixins), and every argument tuple, the logged chain "
    "of entered bodies and the end kind equal the reference chain R4.",
    "Trusted: reference model R1-R4/R6. Abstains where the statement is silent: call_next with other arguments the caller still "
    "accepts; a parent holding a replaced twin of a signature redefined in a later mixin layer.",
    "bounded-exhaustive enumeration of programs x delegation masks x calls on the real implementation vs a reference chain",
    "DESIGN.md section 5 C07")

add("C03", "model_checking",
    "Every signature set of the stated space (all valid combinations of positional-only / positional-or-keyword, required / optional, "
    "keyword-only required / optional parameters; uniform or differing names; function, bound method, descriptor) x every call shape "
    "x both entry points is executed on the real code; the selected method's bindings, defaults, result and exception are compared "
    "by object identity with the reference (R1-R3, R7).",
    "Trusted: reference model; calls whose reference outcome is a tie are skipped (C02).",
    "bounded-exhaustive enumeration of signature sets x call shapes on the real implementation with identity-tracking sentinels",
    "DESIGN.md section 5 C03")

add("C04", "model_checking",
    "Explicit-state breadth-first search over call histories of the real function for every program of the stated families "
    "(static, delegating, recursive walker, Literal / Dependent): all reachable cache states up to closure or the stated depth, "
    "and in each state every call of the corpus, must give the first-call-ever outcome.",
    "Trusted: the canonical cache snapshot used to merge states (its soundness is tested on every run by re-expanding re-reached states).",
    "explicit-state BFS over operation histories replayed on the real objects, differential oracle against a brand-new function",
    "DESIGN.md section 5 C04")

add("C05", "model_checking",
    "Explicit-state breadth-first search over register / unregister / call histories of a real Ovld and register / lookup histories "
    "of the public MultiTypeMap, from every pre-registered subset (used and unused) of every enumerated method pool: every call "
    "in every reachable state must equal the call on a brand-new object built from the surviving methods.",
    "Trusted: 15-line model of the surviving method set; canonical state snapshot (tested by re-expansion).",
    "explicit-state BFS over operation histories replayed on the real objects, differential oracle against a fresh build",
    "DESIGN.md section 5 C05")

add("C06", "model_checking",
    "Four exhaustive differential sub-checks on the real code: every sequence of iteration orders at the library's set-iteration "
    "sites (choice points, tree search with prefix replay), every permutation of the registration order of distinct signatures, "
    "every addition of a non-applicable method, and a fixed corpus recomputed in separate processes under other hash seeds; "
    "over static programs and union / intersection / Literal / Dependent pool programs.",
    "Trusted: hook H1 reaches every order-sensitive set iteration (sub-check 4 without any chooser is the tripwire); choice points "
    "with more than 4 elements are answered canonically.",
    "stateless choice-point exploration (all iteration-order answers, deviation-bounded beyond 3 methods) + exhaustive permutation / extension enumeration",
    "DESIGN.md section 5 C06")

add("C16", "model_checking",
    "Explicit-state breadth-first search over create / copy / mixin / add_mixins / register / unregister / call histories on a graph of "
    "up to 3 real functions with and without linkback; after every transition every node is probed on a replayed copy and must equal "
    "a fresh function built from its reference (R6) effective method list, and a modification must be refused iff a used descendant "
    "is not linked to the modified node.",
    "Trusted: reference graph model (R6 + lock rule). Derivations that reach one ancestor along two paths are left out (statement silent); "
    "states are merged without cache contents (sound modulo C04/C05).",
    "explicit-state BFS over operation histories replayed on the real objects vs a reference derivation model",
    "DESIGN.md section 5 C16")

add("C20", "model_checking",
    "Explicit-state breadth-first search over call / register / unregister histories of programs annotated with user class predicates and "
    "order / subtype hooks; counters on every hook and resolution entry point must not move on any call that already succeeded "
    "since the last change, including its nested recurse / call_next lookups.",
    "Trusted: counters attached from outside (module attribute rebinding); canonical state snapshot (tested by re-expansion).",
    "explicit-state BFS over operation histories on the real objects with a zero-delta invariant on instrumentation counters",
    "DESIGN.md section 5 C20")

add("C12", "model_checking",
    "All ordered pairs of a finite type universe (closure of every type constructor over a hierarchy with chain, diamond, ABC, protocol, "
    "builtins; depth 1 quick, 2 thorough; raw annotations and normal forms) are compared with typeorder in both directions: reflexivity, "
    "mirror symmetry, no exception, and the statement's named clauses on the sub-families they name (all class triples for transitivity); "
    "plus all histories of 1-2 relation-changing events (virtual-subclass registration, a class starting to satisfy a runtime protocol) "
    "with no / one / all comparisons before them: after every event the order must equal issubclass at that moment.",
    "Trusted: nothing beyond the statement is demanded; annotations ovld refuses to normalise are left out.",
    "exhaustive enumeration of all pairs (triples on the class fragment) of a finite type universe against algebraic laws",
    "DESIGN.md section 5 C12")

add("C13", "model_checking",
    "Every static type of a finite universe x every class of a closed world: subclasscheck and dispatch-level applicability on the real "
    "code must equal membership in the type's denotation computed from the documented meaning; every ordered pair of types as two methods "
    "of one function (the method that runs must be one whose denotation contains the class); Deferred on a not-yet-imported module; "
    "reflexivity, issubclass-equivalence, transitivity (all triples) and covariance on the class + generic fragment.",
    "Trusted: the denotation rules (documented meaning of each constructor).",
    "exhaustive enumeration of a finite type universe x closed world of classes against a denotational oracle; all pairs / triples for the laws",
    "DESIGN.md section 5 C13")

add("C10", "model_checking",
    "All 8 predicates over the integer domain {0,1,2} (so 'every predicate' is literal on it) and attribute predicates over class bounds, "
    "in every mixture of <= 3 dependent methods + a static method, priorities, one / two positions, keyword-only dependent parameter and "
    "unions of dependent types with different bounds, on every corpus value: outcome vs R1-R3 with the dependent clauses, and every value "
    "a user condition is asked about must be an instance of its bound.",
    "Trusted: reference semantics for dependent types (vt/annot.py); predicates pure and total.",
    "bounded-exhaustive enumeration of programs x values on the real implementation vs a reference model, with a monitor on the predicate log",
    "DESIGN.md section 5 C10")

add("C11", "model_checking",
    "Every built-in value type of the stated list (and their & / | combinations) x every companion configuration that steers the generator "
    "onto its if-chain, table and counting paths x the whole value corpus: the method runs iff the value has the documented meaning, which "
    "must also equal isinstance(value, type); the check fails as a harness error if a generator strategy was never produced.",
    "Trusted: documented meaning of each value type as coded in vt/annot.py.",
    "bounded-exhaustive enumeration of (type under test, companions, value) on the real implementation vs documented meaning",
    "DESIGN.md section 5 C11")

add("C14", "model_checking",
    "Every method set of <= 3 from a pool of type[...] annotations (classes, bare type, generics, nested parametrisations, a user generic), "
    "pairs over two positions, call_next chains and recurse, x every passed type object / instance of the corpus: outcome vs R1-R3 with "
    "the reference subtype relation.",
    "Trusted: ref_subtype (vt/annot.py). Abstains (monitor only) where two applicable type[...] annotations have unrelated generic origins.",
    "bounded-exhaustive enumeration of programs x passed type objects on the real implementation vs a reference model",
    "DESIGN.md section 5 C14")

add("C15", "model_checking",
    "For 8 classes of equivalent spellings, every surrounding method set of the stated pool (incl. the other spelling of the same annotation, "
    "which must act as a re-registration), both registration positions and every corpus value, the outcome tables of all spellings of a "
    "class must be identical.",
    "Purely differential; no reference model.",
    "bounded-exhaustive differential enumeration of (spelling class, surrounding, value) on the real implementation",
    "DESIGN.md section 5 C15")

add("C08", "model_checking",
    "All derivation DAGs of <= 4 functions (copy / mixins) x every placement of a list walker (four ways of re-entering: recurse called, "
    "recurse passed as a value, own name called, own name passed) and of leaf methods x orders of first use x nested inputs, probing "
    "every node: the result tree (which node's method handled which element) must equal the reference interpreter's.",
    "Trusted: reference interpreter R5/R6 (vt/c08.py).",
    "bounded-exhaustive enumeration of derivation graphs x placements x first-use orders on the real implementation vs a reference interpreter",
    "DESIGN.md section 5 C08")

add("C18", "fault_enumeration",
    "For every scenario (first-use build through each entry point, rebuild after register / unregister, cache-miss resolution incl. call_next "
    "chains and dependent dispatchers) an uncatchable exception is raised at every executed library source line of the operation, one "
    "execution per fault point; after each fault every corpus value is probed through both entry points on its own replay and must "
    "show the complete behaviour or fail loudly; plus four kinds of invalid method at every registration position.",
    "Trusted: CPython sys.settrace line events; one fault per execution, striking at line starts; after an interrupted mutation the complete "
    "set is what the library's own method table holds.",
    "exhaustive fault-point enumeration: exception injected at every library line event (sys.settrace), followed by differential probes",
    "DESIGN.md section 5 C18")

add("C19", "model_checking",
    "Two real threads on one shared function are serialised by a baton at every executed source line of the library's build / dispatch / "
    "resolution code and ALL schedules with at most 1 (thorough: 2 on the cache-miss scenarios) preemption are run, plus, on racing first "
    "calls, one further preemption located before the build lock is taken (bootstrap entry point, ensure_compiled, prologue of compile): racing first calls "
    "(lazy build) through three entry points, racing cache misses for equal / different / position-sharing tuples, racing call_next "
    "chains, racing dependent dispatchers; each thread must get its sequential result, no deadlock, and the function must be correct "
    "for every probe afterwards.",
    "Trusted: switches happen between source lines of the visible library functions (thorough re-runs bound 1 with every library line visible); "
    "the build lock is replaced by a cooperative lock through the guarded seam; standard-library internals are outside the model.",
    "stateless schedule exploration of the real threads under a controlled scheduler with iterative preemption bounding (CHESS-style)",
    "DESIGN.md section 5 C19")

add("C17", "model_checking",
    "Every class hierarchy of <= 3 (thorough 4) classes x every assignment of 0-2 definitions of one method name per class from a pool "
    "(with recurse and call_next users), each optionally marked extend_super, x instances of every class x every corpus value: defining "
    "a class never changes the outcome table of an existing class (before / after differential), merged behaviour equals R1-R5 where "
    "the statement speaks, and self is the instance in every entered body.",
    "Trusted: R1-R5 reference; abstains where the statement / documentation is silent (unmarked subclass definitions, several bases without "
    "own definition, mark on a later definition only, same signature from two unrelated bases).",
    "bounded-exhaustive enumeration of class programs on the real implementation: before/after differential + reference model",
    "DESIGN.md section 5 C17")

add("C09", "model_checking",
    "Every body of the grammar context[call] (38 contexts x 11 call forms x 4 special names x 5 function kinds; thorough: depth 2 with 12 expression wrappers) is built twice from one source "
    "text - registered on a real Ovld (rewritten by the library) and exec'd with the special names bound to ordinary callables of a "
    "reference interpreter - and the two are compared on acceptance, result, exception, order / multiplicity of argument evaluation, "
    "generator laziness, defaults, and file / line of the raising frame.",
    "Trusted: the reference interpreter's ordinary callables (never the library's dispatcher); nesting depth 1 (thorough 2) of the grammar.",
    "bounded-exhaustive enumeration of a body grammar, differential execution of rewritten vs un-rewritten source",
    "DESIGN.md section 5 C09")

ALL = [f"C{i:02d}" for i in range(1, 21)]
REASON_PENDING = "check not built yet in this round (planned: DESIGN.md section 5); not claimed until its machinery exists"

def main():
    hooks = subprocess.run(["git", "-C", "/repo", "log", "--format=%h %s"], capture_output=True, text=True).stdout.splitlines()
    hook_commits = [l.split()[0] for l in hooks if l.split(" ", 1)[1].startswith("verif hook")]
    m = {
        "version": 1,
        "setup_cmd": "/venv/bin/python -m compileall -q vt >/dev/null 2>&1; /venv/bin/python -c 'import sys; sys.path.insert(0, \"/verif\"); import vt.env'",
        "hooks": {
            "guard": "OVLD_VERIF",
            "enable": "environment variable OVLD_VERIF=1 (set by vt/env.py before ovld is imported from /repo/src)",
            "baseline_off_cmd": "cd /repo && env -u OVLD_VERIF /venv/bin/python -m pytest -ra -q -p no:cacheprovider --timeout=900 --continue-on-collection-errors",
            "source_commits": hook_commits,
            "add_only": True,
        },
        "engines": [{"name": "vt", "path": "/verif/vt", "serves_properties": sorted(CHECKS),
                     "kind_free_text": "hand-written explicit-state / stateless explorers driving the real ovld code (program x call enumeration, history BFS, iteration-order choice points, fault-point enumeration, preemption-bounded schedules)"}],
        "checks": [CHECKS[k] for k in sorted(CHECKS)],
        "notes": "See DESIGN.md. Exit codes: 0 held / known findings only, 1 new violation, 2 harness error.",
        "not_applicable": [{"property_id": p, "reason": REASON_PENDING} for p in ALL if p not in CHECKS],
    }
    json.dump(m, open("/verif/MANIFEST.json", "w"), indent=1)

if __name__ == "__main__":
    main()
